"""Shared harness: cells, seeded Hypothesis runs, sharding, evidence, replay, exit codes.

A *cell* is one executable law for one call site: (strategy, check, nontrivial, classify).
`check(case)` raises Violation when the law fails on `case` (a JSON-serialisable value).
Every random choice is made by Hypothesis; a run is a pure function of (tree, VERIF_SEED, tier).
"""
from __future__ import annotations

import fnmatch
import hashlib
import json
import math
import multiprocessing as mp
import os
import sys
import time
import traceback

VERIF = os.path.dirname(os.path.dirname(os.path.abspath(__file__)))
REPO = os.path.abspath(os.environ.get("CYECCA_REPO", "/repo"))
OUT = os.path.abspath(os.environ.get("VERIF_OUT", VERIF))  # where evidence/ and replays/ are written


class Violation(Exception):
    """The property is broken on this case."""

    def __init__(self, msg, **details):
        super().__init__(msg)
        self.msg = msg
        self.details = details


class Discard(Exception):
    """The generated case is outside the property's stated domain (counted, not checked)."""


def require(cond):
    if not cond:
        raise Discard()


class NotOffered(Exception):
    """Operation explicitly raises NotImplementedError: out of scope."""


class HarnessError(Exception):
    pass


def jsonable(x):
    import numpy as np

    if isinstance(x, dict):
        return {str(k): jsonable(v) for k, v in x.items()}
    if isinstance(x, (list, tuple)):
        return [jsonable(v) for v in x]
    if isinstance(x, np.ndarray):
        return jsonable(x.tolist())
    if isinstance(x, (np.floating,)):
        x = float(x)
    if isinstance(x, (np.integer,)):
        return int(x)
    if isinstance(x, (np.bool_,)):
        return bool(x)
    if isinstance(x, float):
        if math.isnan(x):
            return "nan"
        if math.isinf(x):
            return "inf" if x > 0 else "-inf"
        return x
    if isinstance(x, (int, str, bool)) or x is None:
        return x
    if isinstance(x, complex):
        return [x.real, x.imag]
    return repr(x)


def unjson(x):
    if isinstance(x, dict):
        return {k: unjson(v) for k, v in x.items()}
    if isinstance(x, list):
        return [unjson(v) for v in x]
    if x == "nan":
        return float("nan")
    if x == "inf":
        return float("inf")
    if x == "-inf":
        return float("-inf")
    return x


def case_hash(name, case, digits=9):
    def rnd(v):
        if isinstance(v, float):
            if v != v or v in (float("inf"), float("-inf")):
                return str(v)
            return float("%.*g" % (digits, v))
        if isinstance(v, dict):
            return {k: rnd(w) for k, w in v.items()}
        if isinstance(v, (list, tuple)):
            return [rnd(w) for w in v]
        return v

    s = json.dumps([name, rnd(jsonable(case))], sort_keys=True)
    return int.from_bytes(hashlib.blake2b(s.encode(), digest_size=8).digest(), "big")


class Cell:
    def __init__(
        self,
        name,
        strategy,
        check,
        nontrivial=None,
        classify=None,
        quick=200,
        thorough=4000,
        examples=(),
        shrink=True,
        build=None,
        shards_thorough=None,
        shards_quick=None,
        weight=1.0,
        case_limit=None,
    ):
        self.name = name
        self.strategy = strategy  # hypothesis strategy or callable(tier)->strategy
        self.check = check
        self.nontrivial = nontrivial or (lambda case: True)
        self.classify = classify
        self.quick = quick
        self.thorough = thorough
        self.examples = list(examples)
        self.shrink = shrink
        self.build = build  # optional callable run once before the cell (may raise NotOffered)
        self.shards_thorough = shards_thorough
        self.shards_quick = shards_quick
        self.weight = weight
        # wall-clock budget of ONE generated case in seconds (None: CASE_LIMIT_DEFAULT); a case that exceeds it makes its shard
        # "inconclusive" (recorded in the evidence) - a time budget hit is never a violation and never hangs the run
        self.case_limit = case_limit


def in_repo_traceback(exc):
    tb = exc.__traceback__
    for fr in traceback.extract_tb(tb):
        if os.path.abspath(fr.filename).startswith(REPO + os.sep):
            return True
    return False


def load_known(prop_id):
    path = os.path.join(VERIF, "known_findings.json")
    if not os.path.exists(path):
        return []
    with open(path) as f:
        data = json.load(f)
    return [k for k in data.get("known", []) if k.get("property") == prop_id]


# --------------------------------------------------------------------------------------
# running one (cell, shard)
# --------------------------------------------------------------------------------------

_PROP = {}  # populated in the parent before fork: id, cells, known, matchers
CASE_LIMIT_DEFAULT = float(os.environ.get("VERIF_CASE_LIMIT", "900"))
_CASE_T0 = [None, None, None]  # [start time of the running case, its limit, shared double mirrored for the parent]
WATCHDOG_EXIT = 97


def _empty_result(cell_name, shard):
    return {"cell": cell_name, "shard": shard, "evals": 0, "nontrivial": set(), "classes": {}, "samples": [], "known_hits": {},
            "violation": None, "discarded": 0, "excluded": None, "error": None, "wall": 0.0}


def _child_main(task, conn, beat):
    _CASE_T0[2] = beat  # shared double: start time of the running case (read by the parent, which owns the kill switch:
    #                     a thread in this process could not run while the main thread sits in C code holding the GIL)
    try:
        res = _run_cell_shard(task)
        conn.send(res)
        conn.close()
    finally:
        os._exit(0)


def _run_tasks_parallel(tasks, nproc):
    """Fork one process per task (at most nproc at a time).  A worker whose current case exceeds its budget kills itself; the
    parent records that shard as inconclusive instead of waiting for ever (multiprocessing.Pool would hang on a lost worker)."""
    from multiprocessing.connection import wait as mp_wait

    ctx = mp.get_context("fork")
    pending = list(tasks)
    running = {}
    results = []
    while pending or running:
        while pending and len(running) < nproc:
            t = pending.pop(0)
            r, w = ctx.Pipe(duplex=False)
            beat = ctx.Value("d", time.time(), lock=False)
            p = ctx.Process(target=_child_main, args=(t, w, beat))
            p.start()
            w.close()
            running[r] = (p, t, beat)
        ready = mp_wait(list(running), timeout=1.0)
        for r in list(running):
            p, t, beat = running[r]
            res = None
            killed = False
            lim = _PROP["cells"][t[0]].case_limit or CASE_LIMIT_DEFAULT
            if r not in ready and p.is_alive() and beat.value > 0 and time.time() - beat.value > lim:
                p.kill()
                p.join()
                killed = True
            if not killed and (r in ready or (not p.is_alive() and r.poll(0))):
                try:
                    res = r.recv()
                except (EOFError, OSError):
                    res = None
            elif p.is_alive() and not killed:
                continue
            p.join()
            r.close()
            del running[r]
            if res is None:
                cell = _PROP["cells"][t[0]]
                res = _empty_result(cell.name, t[1])
                if killed:
                    res["timeout"] = "a generated case exceeded its time budget of %g s; the shard is inconclusive" % (
                        cell.case_limit or CASE_LIMIT_DEFAULT)
                else:
                    res["error"] = "worker process ended with exit status %s without reporting" % p.exitcode
            results.append(res)
    return results


def _run_cell_shard(args):
    idx, shard, n_examples, seed_val, tier = args
    cell = _PROP["cells"][idx]
    res = {
        "cell": cell.name,
        "shard": shard,
        "evals": 0,
        "nontrivial": set(),
        "classes": {},
        "samples": [],
        "known_hits": {},
        "violation": None,
        "discarded": 0,
        "excluded": None,
        "error": None,
        "wall": 0.0,
    }
    t0 = time.time()
    try:
        _run_cell_shard_inner(cell, res, shard, n_examples, seed_val, tier)
    except BaseException as e:  # harness problem
        res["error"] = "".join(traceback.format_exception(type(e), e, e.__traceback__))[-4000:]
    res["wall"] = time.time() - t0
    return res


def _match_known(cell, case, v):
    for k in _PROP["known"]:
        if not fnmatch.fnmatch(cell.name, k.get("cell", "*")):
            continue
        m = _PROP["matchers"].get(k.get("matcher"))
        if m is None:
            continue
        try:
            if m(cell.name, case, v):
                return k["id"]
        except Exception:
            continue
    return None


def _guard_check(cell, case):
    """Run cell.check; turn repo-originated exceptions into Violation."""
    try:
        cell.check(case)
    except Violation:
        raise
    except NotOffered:
        raise
    except (KeyboardInterrupt, SystemExit):
        raise
    except Exception as e:
        if in_repo_traceback(e) or isinstance(e, RuntimeError) and "casadi" in str(e):
            raise Violation(
                "exception from code under test: %s: %s" % (type(e).__name__, str(e)[:300])
            )
        raise


def _run_cell_shard_inner(cell, res, shard, n_examples, seed_val, tier):
    import hypothesis
    from hypothesis import HealthCheck, Phase, given, settings

    if _CASE_T0[2] is not None:
        _CASE_T0[2].value = -1.0  # building the operation: not timed
    if cell.build is not None:
        try:
            cell.build()
        except NotOffered as e:
            res["excluded"] = "not offered: %s" % e
            return
        except NotImplementedError as e:
            res["excluded"] = "not offered (NotImplementedError): %s" % e
            return
        except Exception as e:
            msg = "building the operation raised %s: %s" % (type(e).__name__, str(e)[:300])
            v = Violation(msg)
            kid = _match_known(cell, {"build": True}, v)
            if kid:
                res["known_hits"][kid] = res["known_hits"].get(kid, 0) + 1
                res["excluded"] = "known finding %s (build fails)" % kid
                return
            if in_repo_traceback(e) or True:
                res["violation"] = {"case": {"build": True}, "msg": msg, "details": {
                    "traceback": traceback.format_exc()[-2000:]}}
                res["evals"] = 1
                return

    strat = cell.strategy(tier) if callable(cell.strategy) and not hasattr(cell.strategy, "example") else cell.strategy
    # a dict {label: strategy} = forced stratification: the budget is split evenly over the labels
    strata = list(strat.items()) if isinstance(strat, dict) else [(None, strat)]
    last_fail = {}

    def body(case):
        res["evals"] += 1
        _CASE_T0[0], _CASE_T0[1] = time.time(), (cell.case_limit or CASE_LIMIT_DEFAULT)
        if _CASE_T0[2] is not None:
            _CASE_T0[2].value = _CASE_T0[0]
        if os.environ.get("VERIF_TRACE"):  # debugging aid: last case each worker started (to identify a stuck case)
            with open("%s.%d" % (os.environ["VERIF_TRACE"], os.getpid()), "w") as f_:
                json.dump({"cell": cell.name, "case": jsonable(case)}, f_)
        if cell.classify is not None:
            try:
                c = cell.classify(case)
            except Exception:
                c = "classify-error"
            for cc in c if isinstance(c, (list, tuple, set)) else [c]:
                res["classes"][cc] = res["classes"].get(cc, 0) + 1
        nt = False
        try:
            nt = bool(cell.nontrivial(case))
        except Exception:
            nt = False
        if nt:
            res["nontrivial"].add(case_hash(cell.name, case))
            if len(res["samples"]) < 2:
                res["samples"].append(jsonable(case))
        try:
            _guard_check(cell, case)
        except Discard:
            res["discarded"] = res.get("discarded", 0) + 1
            if in_hyp[0]:
                hypothesis.reject()
            return
        except Violation as v:
            kid = _match_known(cell, case, v)
            if kid is not None:
                res["known_hits"][kid] = res["known_hits"].get(kid, 0) + 1
                return
            last_fail["case"] = case
            last_fail["v"] = v
            raise

    in_hyp = [False]
    # explicit examples first (always run, every seed), outside Hypothesis
    if shard == 0:
        for ex in cell.examples:
            try:
                body(ex)
            except Violation as v:
                res["violation"] = {"case": jsonable(ex), "msg": v.msg, "details": jsonable(v.details)}
                return

    if n_examples <= 0:
        return
    per = max(1, int(math.ceil(n_examples / len(strata))))
    for si, (label, strat1) in enumerate(strata):
        _hyp_run(cell, res, body, strat1, per, (seed_val + 104729 * si) % (2**63), last_fail, in_hyp)
        if res["violation"] or res["error"]:
            return


def _hyp_run(cell, res, body, strat, n_examples, seed_val, last_fail, in_hyp):
    import hypothesis
    from hypothesis import HealthCheck, Phase, given, settings

    phases = [Phase.generate, Phase.target]
    if cell.shrink:
        phases.append(Phase.shrink)
    st = settings(
        max_examples=n_examples,
        database=None,
        deadline=None,
        derandomize=False,
        report_multiple_bugs=False,
        print_blob=False,
        suppress_health_check=list(HealthCheck),
        phases=phases,
    )
    test = hypothesis.seed(seed_val)(st(given(strat)(body)))
    try:
        in_hyp[0] = True
        try:
            test()
        finally:
            in_hyp[0] = False
    except Violation as v:
        case = last_fail.get("case")
        vv = last_fail.get("v", v)
        case = _simplify_floats(cell, case) if cell.shrink else case
        # message for the (possibly simplified) case
        try:
            _guard_check(cell, case)
            case = last_fail.get("case")
        except Violation as v2:
            vv = v2
        except Discard:
            case = last_fail.get("case")
        res["violation"] = {"case": jsonable(case), "msg": vv.msg, "details": jsonable(vv.details)}
    except hypothesis.errors.Unsatisfiable as e:
        res["error"] = "generator unsatisfiable: %s" % e


def _msg_kind(msg):
    import re

    return re.sub(r"[-+]?[0-9][0-9.eE+-]*", "#", msg.split(" vs ")[0])[:60]


def _simplify_floats(cell, case, budget=400):
    """After Hypothesis' shrink: try rounding floats to few digits / snapping to 0, keeping the same kind of
    failure (same message up to numbers; so rounding cannot wander into an invalid-input artefact) and
    keeping it outside known findings."""
    calls = [0]
    kind = [None]
    try:
        _guard_check(cell, case)
    except Violation as v0:
        kind[0] = _msg_kind(v0.msg)
    except Exception:
        return case

    def fails(c):
        calls[0] += 1
        try:
            _guard_check(cell, c)
        except Violation as v:
            if kind[0] is not None and _msg_kind(v.msg) != kind[0]:
                return False
            return _match_known(cell, c, v) is None
        except Discard:
            return False
        except Exception:
            return False
        return False

    def paths(x, pre=()):
        if isinstance(x, float):
            yield pre
        elif isinstance(x, (list, tuple)):
            for i, v in enumerate(x):
                yield from paths(v, pre + (i,))
        elif isinstance(x, dict):
            for k, v in x.items():
                yield from paths(v, pre + (k,))

    def setp(x, path, val):
        if not path:
            return val
        if isinstance(x, dict):
            y = dict(x)
            y[path[0]] = setp(x[path[0]], path[1:], val)
            return y
        y = list(x)
        y[path[0]] = setp(x[path[0]], path[1:], val)
        return y if isinstance(x, list) else tuple(y)

    def getp(x, path):
        for p in path:
            x = x[p]
        return x

    try:
        cur = case
        for p in list(paths(case)):
            if calls[0] > budget:
                break
            v = getp(cur, p)
            if v != v or v in (float("inf"), float("-inf")):
                continue
            for cand in (0.0, float(round(v)), float("%.1g" % v), float("%.2g" % v), float("%.4g" % v)):
                if cand == v:
                    break
                c2 = setp(cur, p, cand)
                if fails(c2):
                    cur = c2
                    break
        return cur
    except Exception:
        return case


# --------------------------------------------------------------------------------------
# property-level driver
# --------------------------------------------------------------------------------------


def run_property(prop_id, cells, *, rule, assumptions=(), matchers=None, tier="quick", seed=1,
                 replay=None, extra_coverage=None, level="exploration", workers=None,
                 require_classes=None):
    """Run all cells, write evidence, print VIOLATION / KNOWN-FINDING lines, return exit code."""
    t0 = time.time()
    known = load_known(prop_id)
    _PROP.update({"id": prop_id, "cells": cells, "known": known, "matchers": matchers or {}})

    if replay is not None:
        return _replay(prop_id, cells, replay)

    tasks = []
    for i, c in enumerate(cells):
        n = c.quick if tier == "quick" else c.thorough
        if tier == "thorough":
            shards = c.shards_thorough or max(1, min(16, n // 500))
        else:
            shards = c.shards_quick or 1
        per = int(math.ceil(n / shards)) if n > 0 else 0
        for s in range(shards):
            seed_val = (seed * 1000003 + i * 1009 + s * 7919 + (0 if tier == "quick" else 500000)) % (2**63)
            tasks.append((i, s, per, seed_val, tier))

    nproc = workers or min(16, os.cpu_count() or 1, len(tasks))
    if os.environ.get("VERIF_WORKERS"):
        nproc = max(1, int(os.environ["VERIF_WORKERS"]))
    # heaviest first
    tasks.sort(key=lambda t: -(t[2] * cells[t[0]].weight))
    if os.environ.get("VERIF_INPROCESS") == "1":  # debugging only: no time budget is enforced in this mode
        results = [_run_cell_shard(t) for t in tasks]
    else:
        results = _run_tasks_parallel(tasks, max(1, nproc))
    results.sort(key=lambda r: (r["cell"], r["shard"]))

    # aggregate
    evals = 0
    nontriv = set()
    per_cell = {}
    violations = []
    errors = []
    excluded = {}
    known_hits = {}
    samples = []
    timeouts = []
    for r in results:
        evals += r["evals"]
        nontriv |= r["nontrivial"]
        pc = per_cell.setdefault(r["cell"], {"evals": 0, "nontrivial": 0, "classes": {}, "wall_s": 0.0})
        pc["evals"] += r["evals"]
        pc["discarded"] = pc.get("discarded", 0) + r.get("discarded", 0)
        pc["nontrivial"] += len(r["nontrivial"])
        pc["wall_s"] = round(pc["wall_s"] + r["wall"], 2)
        for k, v in r["classes"].items():
            pc["classes"][k] = pc["classes"].get(k, 0) + v
        if r["samples"] and sum(1 for s in samples if s["cell"] == r["cell"]) < 1:
            samples.append({"cell": r["cell"], "case": r["samples"][0]})
        if r["excluded"]:
            excluded[r["cell"]] = r["excluded"]
        for k, v in r["known_hits"].items():
            known_hits[k] = known_hits.get(k, 0) + v
        if r["violation"] and not any(v["cell"] == r["cell"] for v in violations):
            violations.append({"cell": r["cell"], **r["violation"]})
        if r["error"]:
            errors.append({"cell": r["cell"], "error": r["error"]})
        if r.get("timeout"):
            timeouts.append({"cell": r["cell"], "shard": r["shard"], "note": r["timeout"]})
            print("INCONCLUSIVE property=%s cell=%s shard=%s: %s" % (prop_id, r["cell"], r["shard"], r["timeout"]))

    # generator-deficiency check: required classes must be hit
    if require_classes and not violations and not errors:
        for cellpat, classes in require_classes.items():
            for cname, pc in per_cell.items():
                if any(t_["cell"] == cname for t_ in timeouts):
                    continue  # a shard of this cell was cut short by the time budget: its class counts are incomplete
                if fnmatch.fnmatch(cname, cellpat) and cname not in excluded and pc["evals"] > 0:
                    for cl in classes:
                        if pc["classes"].get(cl, 0) == 0:
                            errors.append({"cell": cname, "error": "generator never produced class %r" % cl})

    wall = time.time() - t0
    rc = 0
    os.makedirs(os.path.join(OUT, "evidence"), exist_ok=True)
    replay_paths = []
    for v in violations:
        d = os.path.join(OUT, "replays", prop_id)
        os.makedirs(d, exist_ok=True)
        h = hashlib.blake2b(json.dumps([v["cell"], v["case"]], sort_keys=True).encode(), digest_size=5).hexdigest()
        path = os.path.join(d, "%s-%s.json" % (v["cell"].replace("/", "_").replace(" ", ""), h))
        with open(path, "w") as f:
            json.dump({"property": prop_id, "cell": v["cell"], "case": v["case"], "message": v["msg"],
                       "details": v["details"], "seed": seed, "tier": tier}, f, indent=1)
        replay_paths.append(path)
        print("VIOLATION property=%s replay=%s" % (prop_id, os.path.relpath(path, OUT) if OUT == VERIF else path))
        print("  cell=%s :: %s" % (v["cell"], v["msg"][:500]))
        rc = 1
    for k in known:
        print("KNOWN-FINDING: property=%s %s [id=%s, cases excluded this run=%d]" % (
            prop_id, k.get("what", ""), k["id"], known_hits.get(k["id"], 0)))

    coverage = {
        "evaluations": int(evals),
        "distinct_nontrivial": int(len(nontriv)),
        "rule": rule,
        "samples": samples[:40] if samples else [{"note": "no non-trivial sample recorded"}],
        "cells": per_cell,
        "n_cells": len(per_cell),
        "excluded": excluded,
        "known_findings_excluded_cases": known_hits,
        "violating_cells": [v["cell"] for v in violations],
        "harness_errors": errors,
        "inconclusive_shards_time_budget": timeouts,
    }
    if extra_coverage:
        coverage.update(extra_coverage() if callable(extra_coverage) else extra_coverage)
    ev = {
        "property_id": prop_id,
        "tier": tier,
        "seed": int(seed),
        "level": level,
        "coverage": jsonable(coverage),
        "assumptions": list(assumptions),
        "wall_s": round(wall, 2),
        "violations": len(violations),
    }
    with open(os.path.join(OUT, "evidence", prop_id + ".json"), "w") as f:
        json.dump(ev, f, indent=1)
    print("%s tier=%s seed=%d cells=%d evaluations=%d distinct_nontrivial=%d violations=%d wall=%.1fs" % (
        prop_id, tier, seed, len(per_cell), evals, len(nontriv), len(violations), wall))
    for e in errors[:5]:
        print("HARNESS-ERROR cell=%s\n%s" % (e["cell"], e["error"]), file=sys.stderr)
    if errors and rc == 0:
        return 2
    return rc


def _replay(prop_id, cells, path):
    with open(path) as f:
        rep = json.load(f)
    case = unjson(rep["case"])
    for c in cells:
        if c.name == rep["cell"]:
            if isinstance(case, dict) and case.get("build"):
                try:
                    c.build()
                except Exception as e:
                    print("VIOLATION property=%s replay=%s" % (prop_id, path))
                    print("  cell=%s :: build raised %s: %s" % (c.name, type(e).__name__, e))
                    return 1
                print("replay: build succeeded; cell=%s holds" % c.name)
                return 0
            if c.build is not None:
                c.build()
            try:
                _guard_check(c, case)
            except Discard:
                print("replay: case is outside the property's domain (discarded); cell=%s" % c.name)
                return 0
            except Violation as v:
                kid = _match_known(c, case, v)
                if kid:
                    print("KNOWN-FINDING: property=%s replayed case matches %s" % (prop_id, kid))
                    return 0
                print("VIOLATION property=%s replay=%s" % (prop_id, path))
                print("  cell=%s :: %s" % (c.name, v.msg[:800]))
                return 1
            print("replay: case holds; cell=%s" % c.name)
            return 0
    print("replay: unknown cell %r" % rep["cell"], file=sys.stderr)
    return 2
