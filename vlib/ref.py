"""Reference mathematics written from the textbook definitions (numpy / scipy / mpmath).
Nothing here imports cyecca."""
from __future__ import annotations

import math

import numpy as np

try:
    import mpmath as mp
except Exception:  # pragma: no cover
    mp = None


def hat3(w):
    x, y, z = w
    return np.array([[0.0, -z, y], [z, 0.0, -x], [-y, x, 0.0]])


def vee3(M):
    return np.array([M[2, 1] - M[1, 2], M[0, 2] - M[2, 0], M[1, 0] - M[0, 1]]) / 2.0


def rodrigues(axis, angle):
    """Rotation matrix of a unit axis and an angle (exact Rodrigues formula)."""
    a = np.asarray(axis, float)
    K = hat3(a)
    return np.eye(3) + math.sin(angle) * K + (1.0 - math.cos(angle)) * (K @ K)


def rotvec_to_R(w):
    w = np.asarray(w, float)
    th = float(np.linalg.norm(w))
    if th == 0.0:
        return np.eye(3)
    if th < 1e-8:
        K = hat3(w)
        return np.eye(3) + K + 0.5 * K @ K
    return rodrigues(w / th, th)


def quat_from_axis_angle(axis, angle, sign=1.0):
    a = np.asarray(axis, float)
    h = angle / 2.0
    return sign * np.array([math.cos(h), *(math.sin(h) * a)])


def quat_to_R(q):
    a, b, c, d = q
    return np.array(
        [
            [a * a + b * b - c * c - d * d, 2 * (b * c - a * d), 2 * (b * d + a * c)],
            [2 * (b * c + a * d), a * a - b * b + c * c - d * d, 2 * (c * d - a * b)],
            [2 * (b * d - a * c), 2 * (c * d + a * b), a * a - b * b - c * c + d * d],
        ]
    )


def quat_mul(q, p):
    a1, b1, c1, d1 = q
    a2, b2, c2, d2 = p
    return np.array(
        [
            a1 * a2 - b1 * b2 - c1 * c2 - d1 * d2,
            a1 * b2 + b1 * a2 + c1 * d2 - d1 * c2,
            a1 * c2 - b1 * d2 + c1 * a2 + d1 * b2,
            a1 * d2 + b1 * c2 - c1 * b2 + d1 * a2,
        ]
    )


def mrp_from_axis_angle(axis, angle, shadow=False):
    """MRP r = axis*tan(angle/4); the shadow set is -r/|r|^2 (same rotation)."""
    a = np.asarray(axis, float)
    r = math.tan(angle / 4.0) * a
    if shadow:
        n2 = float(r @ r)
        r = -r / n2
    return r


def mrp_to_R(r):
    """MRP -> rotation matrix via the quaternion it encodes (q0 = (1-n2)/(1+n2), qv = 2r/(1+n2))."""
    r = np.asarray(r, float)
    n2 = float(r @ r)
    q = np.array([(1 - n2) / (1 + n2), *(2 * r / (1 + n2))])
    return quat_to_R(q)


def Rx(a):
    c, s = math.cos(a), math.sin(a)
    return np.array([[1, 0, 0], [0, c, -s], [0, s, c]], float)


def Ry(a):
    c, s = math.cos(a), math.sin(a)
    return np.array([[c, 0, s], [0, 1, 0], [-s, 0, c]], float)


def Rz(a):
    c, s = math.cos(a), math.sin(a)
    return np.array([[c, -s, 0], [s, c, 0], [0, 0, 1]], float)


def euler321_to_R(e):
    """Body-fixed 3-2-1: R = Rz(psi) Ry(theta) Rx(phi), parameters ordered (psi, theta, phi)."""
    psi, theta, phi = e
    return Rz(psi) @ Ry(theta) @ Rx(phi)


def R_to_euler321(R):
    theta = math.asin(max(-1.0, min(1.0, -R[2, 0])))
    phi = math.atan2(R[2, 1], R[2, 2])
    psi = math.atan2(R[1, 0], R[0, 0])
    return np.array([psi, theta, phi])


def dcm_param(R):
    """cyecca stores a DCM as the column-major 9-vector (casadi reshape convention)."""
    return np.asarray(R, float).reshape(9, order="F")


def dcm_from_param(p):
    return np.asarray(p, float).reshape(3, 3, order="F")


def rot_angle(R):
    """Geodesic angle of a rotation matrix, robust near 0 and pi."""
    R = np.asarray(R, float)
    s = np.linalg.norm(vee3(R))
    c = (np.trace(R) - 1.0) / 2.0
    return math.atan2(s, c)


def rot_dist(R1, R2):
    return rot_angle(np.asarray(R1).T @ np.asarray(R2))


def log_SO3(R):
    """Principal rotation vector of R (angle <= pi)."""
    R = np.asarray(R, float)
    th = rot_angle(R)
    if th < 1e-10:
        return vee3(R)
    if math.pi - th > 1e-4:
        return vee3(R) * th / math.sin(th)
    # near pi: axis from the symmetric part
    S = (R + R.T) / 2.0
    B = (S + np.eye(3)) / 2.0  # = a a^T (approximately, times (1-cos)/2 ...)
    i = int(np.argmax(np.diag(B)))
    a = B[:, i] / math.sqrt(max(B[i, i], 1e-300))
    v = vee3(R)
    if v @ a < 0:
        a = -a
    return a / np.linalg.norm(a) * th


def is_rotation(R, tol=1e-9):
    R = np.asarray(R, float)
    if not np.all(np.isfinite(R)):
        return False
    return np.linalg.norm(R.T @ R - np.eye(3)) <= tol and abs(np.linalg.det(R) - 1.0) <= tol


def expm(A):
    import scipy.linalg

    return scipy.linalg.expm(np.asarray(A, float))


def logm_real(A):
    import scipy.linalg

    L = scipy.linalg.logm(np.asarray(A, float))
    return np.real(L)


# ---------------------------------------------------------------------------------------
# mpmath helpers
# ---------------------------------------------------------------------------------------


def mp_matrix(A):
    A = np.asarray(A)
    M = mp.matrix(A.shape[0], A.shape[1])
    for i in range(A.shape[0]):
        for j in range(A.shape[1]):
            M[i, j] = mp.mpf(float(A[i, j]))
    return M


def mp_to_np(M):
    return np.array([[float(M[i, j]) for j in range(M.cols)] for i in range(M.rows)])


def mp_expm(A, dps=50):
    """Matrix exponential at `dps` digits: scaling & squaring with a Taylor series (exact enough
    for the small matrices here; independent of scipy)."""
    with mp.workdps(dps + 10):
        M = A if isinstance(A, mp.matrix) else mp_matrix(A)
        n = M.rows
        nrm = max(sum(abs(M[i, j]) for j in range(n)) for i in range(n))
        s = 0
        if nrm > 0.5:
            s = int(mp.ceil(mp.log(nrm / 0.5, 2)))
        Ms = M / (mp.mpf(2) ** s)
        E = mp.eye(n)
        term = mp.eye(n)
        k = 1
        while True:
            term = term * Ms / k
            E = E + term
            tn = max(abs(term[i, j]) for i in range(n) for j in range(n))
            if tn < mp.mpf(10) ** (-(dps + 8)):
                break
            k += 1
            if k > 400:
                break
        for _ in range(s):
            E = E * E
        return E


def mp_hat3(w):
    x, y, z = [mp.mpf(v) for v in w]
    return mp.matrix([[0, -z, y], [z, 0, -x], [-y, x, 0]])


def mp_rotvec_to_R(w, dps=50):
    with mp.workdps(dps + 10):
        w = [mp.mpf(float(v)) if not isinstance(v, mp.mpf) else v for v in w]
        th2 = w[0] ** 2 + w[1] ** 2 + w[2] ** 2
        K = mp_hat3(w)
        if th2 == 0:
            return mp.eye(3)
        th = mp.sqrt(th2)
        if th < mp.mpf(10) ** (-(dps // 3)):
            # series
            return mp.eye(3) + K * (1 - th2 / 6) + K * K * (mp.mpf(1) / 2 - th2 / 24)
        return mp.eye(3) + K * (mp.sin(th) / th) + K * K * ((1 - mp.cos(th)) / th2)


def mp_log_SO3(R, dps=50):
    """Principal log of an mp rotation matrix (angle < pi - small)."""
    with mp.workdps(dps + 10):
        v = [(R[2, 1] - R[1, 2]) / 2, (R[0, 2] - R[2, 0]) / 2, (R[1, 0] - R[0, 1]) / 2]
        s = mp.sqrt(v[0] ** 2 + v[1] ** 2 + v[2] ** 2)
        c = (R[0, 0] + R[1, 1] + R[2, 2] - 1) / 2
        th = mp.atan2(s, c)
        if s == 0:
            return [mp.mpf(0)] * 3
        if th < mp.mpf(10) ** (-(dps // 3)):
            k = 1 + th * th / 6
        else:
            k = th / s
        return [x * k for x in v]


def mp_so3_coeffs(th2, dps=50):
    """A=sin/x, B=(1-cos)/x^2, C=(x-sin)/x^3 at x=sqrt(th2) in mp with series near zero."""
    with mp.workdps(dps + 10):
        th2 = mp.mpf(th2)
        if th2 < mp.mpf(10) ** (-(dps // 2)):
            A = 1 - th2 / 6 + th2 ** 2 / 120
            B = mp.mpf(1) / 2 - th2 / 24 + th2 ** 2 / 720
            C = mp.mpf(1) / 6 - th2 / 120 + th2 ** 2 / 5040
            return A, B, C
        th = mp.sqrt(th2)
        return mp.sin(th) / th, (1 - mp.cos(th)) / th2, (th - mp.sin(th)) / (th2 * th)


def mp_Jl_so3(w, dps=50):
    with mp.workdps(dps + 10):
        w = [mp.mpf(float(v)) for v in w]
        th2 = w[0] ** 2 + w[1] ** 2 + w[2] ** 2
        _, B, C = mp_so3_coeffs(th2, dps)
        K = mp_hat3(w)
        return mp.eye(3) + K * B + K * K * C


def bernstein_eval(P, t, T):
    """Exact Bernstein evaluation; P list of Fractions (one coordinate), t, T Fractions."""
    from fractions import Fraction
    from math import comb

    n = len(P) - 1
    b = Fraction(t) / Fraction(T)
    return sum(Fraction(comb(n, i)) * b**i * (1 - b) ** (n - i) * Fraction(P[i]) for i in range(n + 1))


def bernstein_poly_coeffs(P, T):
    """Power-basis coefficients (in t) of the Bezier curve with control points P and duration T."""
    from fractions import Fraction
    from math import comb

    n = len(P) - 1
    coeffs = [Fraction(0)] * (n + 1)
    for i in range(n + 1):
        # C(n,i) b^i (1-b)^(n-i) = C(n,i) sum_k C(n-i,k) (-1)^k b^(i+k)
        for k in range(n - i + 1):
            coeffs[i + k] += Fraction(comb(n, i) * comb(n - i, k) * (-1) ** k) * Fraction(P[i])
    return [c / Fraction(T) ** j for j, c in enumerate(coeffs)]


def poly_deriv(c, k=1):
    from fractions import Fraction

    c = list(c)
    for _ in range(k):
        c = [Fraction(j) * c[j] for j in range(1, len(c))]
        if not c:
            c = [Fraction(0)]
    return c


def poly_eval(c, t):
    from fractions import Fraction

    r = Fraction(0)
    for a in reversed(c):
        r = r * Fraction(t) + a
    return r
