"""Hypothesis strategies.  Everything random comes from here (no other RNG)."""
from __future__ import annotations

import math

import numpy as np
from hypothesis import strategies as st

from . import ref

PI = math.pi
SWITCHES = [1e-3, math.sqrt(1e-3), 2 * math.sqrt(1e-3)]  # theta at which a series switch sits
ULP = 2.0**-52


def fl(lo, hi):
    return st.floats(min_value=lo, max_value=hi, allow_nan=False, allow_infinity=False)


@st.composite
def angle(draw, strata=("zero", "denormal", "tiny", "switch", "mid", "nearpi", "pi", "beyond"),
          max_angle=2 * PI - 0.05, weights=None):
    """Stratified rotation magnitude >= 0; returns (theta, stratum)."""
    s = draw(st.sampled_from(list(strata)))
    if s == "zero":
        th = 0.0
    elif s == "denormal":
        th = 10.0 ** draw(fl(-320.0, -8.0))
    elif s == "tiny":
        th = 10.0 ** draw(fl(-8.0, -2.0))
    elif s == "switch":
        base = draw(st.sampled_from(SWITCHES))
        mode = draw(st.integers(0, 2))
        if mode == 0:
            k = draw(st.integers(-8, 8))
            th = base * (1.0 + k * ULP)
        elif mode == 1:
            th = base * (1.0 + draw(st.sampled_from([-1e-6, 1e-6, -1e-9, 1e-9, -1e-3, 1e-3])))
        else:
            th = base * (1.0 + draw(fl(-0.5, 0.5)))
    elif s == "small":
        th = draw(fl(1e-2, 1.0))
    elif s == "mid":
        th = draw(fl(1e-2, min(PI - 1e-2, max_angle)))
    elif s == "nearpi":
        th = PI - 10.0 ** draw(fl(-8.0, -2.0))
    elif s == "pi":
        th = PI
    elif s == "beyond":
        th = draw(fl(PI + 1e-6, max_angle))
    else:
        raise ValueError(s)
    return float(th), s


@st.composite
def axis(draw):
    m = draw(st.integers(0, 9))
    if m == 0:
        i = draw(st.integers(0, 2))
        sg = draw(st.sampled_from([-1.0, 1.0]))
        a = [0.0, 0.0, 0.0]
        a[i] = sg
        return a
    if m == 1:
        # one tiny component
        a = [draw(fl(-1, 1)), draw(fl(-1, 1)), draw(fl(-1, 1))]
        a[draw(st.integers(0, 2))] = draw(st.sampled_from([0.0, 1e-12, -1e-9]))
    else:
        a = [draw(fl(-1, 1)), draw(fl(-1, 1)), draw(fl(-1, 1))]
    n = math.sqrt(sum(x * x for x in a))
    if n < 1e-3:
        a = [1.0, 0.0, 0.0]
        n = 1.0
    return [x / n for x in a]


def nearpole_rotvec(draw, max_angle=PI):  # plain helper taking the draw function
    """Rotation whose 3-2-1 Euler pitch is within (1e-3, 0.3] rad of a gimbal pole (outside the band)."""
    psi = draw(fl(-PI, PI))
    phi = draw(fl(-PI, PI))
    sg = draw(st.sampled_from([-1.0, 1.0]))
    delta = 10.0 ** draw(fl(-2.99, -0.5))
    if draw(st.integers(0, 3)) == 0:
        delta = 1e-3 * (1.0 + draw(st.sampled_from([1e-3, 1e-2, 0.1, 1.0])))
    R = ref.euler321_to_R([psi, sg * (PI / 2 - delta), phi])
    w = ref.log_SO3(R)
    th = float(np.linalg.norm(w))
    if th < 1e-9:
        return [1.0, 0.0, 0.0], 0.0
    if th > max_angle:
        th = max_angle * 0.99
    return [float(x) for x in (w / th)], th


@st.composite
def rotation(draw, strata=("zero", "tiny", "switch", "mid", "nearpi", "pi"), max_angle=2 * PI - 0.05,
             signs=(1, -1), shadow=(False, True)):
    if "nearpole" in strata and draw(st.integers(0, len(strata) - 1)) == 0:
        ax, th = nearpole_rotvec(draw, max_angle)
        return {"axis": ax, "angle": th, "stratum": "nearpole",
                "sign": int(draw(st.sampled_from(list(signs)))), "shadow": draw(st.sampled_from(list(shadow)))}
    strata = tuple(x for x in strata if x != "nearpole")
    th, s = draw(angle(strata=strata, max_angle=max_angle))
    return {
        "axis": draw(axis()),
        "angle": th,
        "stratum": s,
        "sign": int(draw(st.sampled_from(list(signs)))),
        "shadow": draw(st.sampled_from(list(shadow))),
    }


@st.composite
def vector(draw, n=3, scales=(-3, -2, -1, 0, 0, 0, 1, 2, 3), allow_zero=True):
    m = draw(st.integers(0, 11))
    if allow_zero and m == 0:
        return [0.0] * n
    k = draw(st.sampled_from(list(scales)))
    v = [draw(fl(-1.0, 1.0)) * 10.0**k for _ in range(n)]
    if allow_zero and m == 1:
        v[draw(st.integers(0, n - 1))] = 0.0
    return v


@st.composite
def plane_angle(draw, max_abs=2 * PI - 1e-2):
    """SO(2)/SE(2) angle with stratification around 0 and the 1e-3 switch."""
    m = draw(st.integers(0, 11))
    sg = draw(st.sampled_from([-1.0, 1.0]))
    if m == 0:
        return 0.0
    if m == 1:
        return sg * 10.0 ** draw(fl(-300.0, -4.0))
    if m == 2:
        k = draw(st.integers(-8, 8))
        return sg * 1e-3 * (1 + k * ULP)
    if m == 3:
        return sg * 1e-3 * (1 + draw(fl(-0.5, 0.5)))
    return sg * draw(fl(1e-3, max_abs))


# --------------------------------------------------------------------------------------
# encoding rotation specs into cyecca parameter vectors (harness-side, textbook formulas)
# --------------------------------------------------------------------------------------

def unit_axis(a):
    """Axes are stored unit-length by the strategy; re-normalise so that shrinking/rounding of the stored
    floats can never leave the valid input domain."""
    a = np.asarray(a, float)
    n = float(np.linalg.norm(a))
    if not (n > 1e-6) or not np.all(np.isfinite(a)):
        return np.array([1.0, 0.0, 0.0])
    return a / n


def rot_R(spec):
    return ref.rodrigues(unit_axis(spec["axis"]), spec["angle"])


def encode_rot(spec, rep):
    ax, th = unit_axis(spec["axis"]), spec["angle"]
    if rep == "quat":
        return list(ref.quat_from_axis_angle(ax, th, 1.0 if spec.get("sign", 1) >= 0 else -1.0))
    if rep == "mrp":
        sh = bool(spec.get("shadow", False))
        r = ref.mrp_from_axis_angle(ax, th, False)
        n2 = float(r @ r)
        if sh and n2 > 1e-6:
            r = -r / n2
        return list(r)
    if rep == "dcm":
        return list(ref.dcm_param(ref.rodrigues(ax, th)))
    if rep == "euler":
        R = ref.rodrigues(ax, th)
        if 1.0 - abs(R[2, 0]) < 1e-7:
            # exact pole / lost accuracy of the generic formulas: the element is outside every check's domain
            from .harness import Discard
            raise Discard()
        return list(ref.R_to_euler321(R))
    raise ValueError(rep)


def rot_param_to_R(p, rep):
    """Harness-side decoding of a parameter vector (independent of cyecca)."""
    p = np.asarray(p, float)
    if rep == "quat":
        return ref.quat_to_R(p)
    if rep == "mrp":
        return ref.mrp_to_R(p)
    if rep == "dcm":
        return ref.dcm_from_param(p)
    if rep == "euler":
        return ref.euler321_to_R(p)
    raise ValueError(rep)


def euler_in_band(theta, band=1e-3, margin=0.0):
    return abs(abs(theta) - PI / 2) < band + margin


@st.composite
def group_element(draw, layout, rot_strata=("zero", "tiny", "switch", "mid", "nearpi", "pi", "beyond", "nearpole"),
                  max_angle=2 * PI - 0.05, se2_max=2 * PI - 1e-2, scales=(-3, -2, -1, 0, 0, 0, 1, 2, 3)):
    """Structured description of an element: list of slot specs (JSON-able)."""
    out = []
    for slot in layout:
        if slot[0] == "vec":
            out.append({"vec": draw(vector(slot[1], scales=scales))})
        elif slot[0] == "ang":
            out.append({"ang": draw(plane_angle(max_abs=se2_max))})
        elif slot[0] == "rot":
            out.append({"rot": draw(rotation(strata=rot_strata, max_angle=max_angle)), "rep": slot[1]})
        else:
            raise ValueError(slot)
    return out


def encode_element(spec):
    p = []
    for s in spec:
        if "vec" in s:
            p += list(s["vec"])
        elif "ang" in s:
            p.append(s["ang"])
        else:
            p += encode_rot(s["rot"], s["rep"])
    return np.array(p, float)


def element_stats(spec):
    """(max rotation angle, min rotation angle, max |translation|, has_rot, has_vec)"""
    angs = [s["rot"]["angle"] for s in spec if "rot" in s] + [abs(s["ang"]) for s in spec if "ang" in s]
    vs = [float(np.linalg.norm(s["vec"])) for s in spec if "vec" in s]
    return angs, vs


@st.composite
def algebra_element(draw, alg_layout, rot_strata=("zero", "denormal", "tiny", "switch", "mid", "nearpi", "pi", "beyond"),
                    max_angle=2 * PI - 0.05, se2_max=2 * PI - 1e-2, scales=(-3, -2, -1, 0, 0, 0, 1, 2, 3),
                    ang_tiny=False):
    out = []
    for slot in alg_layout:
        if slot[0] == "vec":
            out.append({"vec": draw(vector(slot[1], scales=scales))})
        elif slot[0] == "ang":
            if ang_tiny:
                out.append({"ang": draw(st.sampled_from([0.0, 1e-300, -1e-300, 1e-12, -1e-9, 5e-324]))})
            else:
                out.append({"ang": draw(plane_angle(max_abs=se2_max))})
        elif slot[0] == "rotvec":
            if "nearpole" in rot_strata and draw(st.integers(0, len(rot_strata) - 1)) == 0:
                ax, th = nearpole_rotvec(draw, max_angle)
                out.append({"axis": ax, "angle": th, "stratum": "nearpole"})
                continue
            th, s = draw(angle(strata=tuple(x for x in rot_strata if x != "nearpole"), max_angle=max_angle))
            out.append({"axis": draw(axis()), "angle": th, "stratum": s})
        else:
            raise ValueError(slot)
    return out


def encode_algebra(spec):
    p = []
    for s in spec:
        if "vec" in s:
            p += list(s["vec"])
        elif "ang" in s:
            p.append(s["ang"])
        else:
            p += [a * s["angle"] for a in unit_axis(s["axis"])]
    return np.array(p, float)


def algebra_stats(spec):
    angs = [s["angle"] for s in spec if "axis" in s] + [abs(s["ang"]) for s in spec if "ang" in s]
    vs = [float(np.linalg.norm(s["vec"])) for s in spec if "vec" in s]
    return angs, vs


def split_params(p, layout):
    """Slice a parameter vector along a layout; returns list of (slot, slice-array)."""
    out = []
    i = 0
    for slot in layout:
        if slot[0] == "vec":
            n = slot[1]
        elif slot[0] in ("ang",):
            n = 1
        elif slot[0] == "rot":
            n = {"quat": 4, "mrp": 3, "dcm": 9, "euler": 3}[slot[1]]
        elif slot[0] == "rotvec":
            n = 3
        out.append((slot, np.asarray(p[i:i + n], float)))
        i += n
    return out
