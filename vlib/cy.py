"""Access to the tree under test: imports cyecca from REPO (default /repo) and wraps every public
Lie-group operation in a casadi.Function built on SX symbols, exactly as a user would."""
from __future__ import annotations

import contextlib
import io
import os
import sys

import numpy as np

from .harness import REPO, NotOffered

if REPO not in sys.path:
    sys.path.insert(0, REPO)
os.environ.setdefault("CYECCA_VERIF", "1")

_quiet = io.StringIO()


@contextlib.contextmanager
def quiet():
    """cyecca prints while building some expressions; keep stdout clean (VIOLATION lines only)."""
    with contextlib.redirect_stdout(io.StringIO()):
        yield


with quiet():
    import casadi as ca
    import cyecca
    import cyecca.lie as lie
    from cyecca.lie import group_se3 as _se3m, group_se23 as _se23m, group_so3 as _so3m

try:  # keep casadi's numpy interop in its legacy mode silently (no FutureWarning noise on stderr)
    ca.GlobalOptions.setNumpyMode(-1)
except Exception:
    pass
_cy_file = os.path.abspath(cyecca.__file__)
if not _cy_file.startswith(REPO + os.sep):
    raise RuntimeError("cyecca imported from %s, not from the tree under test %s" % (_cy_file, REPO))

SX = ca.SX


def arr(x):
    a = np.array(x, dtype=float)
    return a


def vec(x):
    return np.array(x, dtype=float).reshape(-1)


class Fn:
    """Lazily built casadi.Function; `make()` returns (inputs, outputs)."""

    def __init__(self, name, make):
        self.name = name
        self.make = make
        self.f = None
        self.err = None

    def build(self):
        if self.f is None:
            if self.err is not None:
                raise self.err
            try:
                with quiet():
                    ins, outs = self.make()
                    self.f = ca.Function(self.name, ins, outs)
            except NotImplementedError as e:
                self.err = NotOffered(str(e) or "NotImplementedError")
                raise self.err
            except Exception as e:
                self.err = e
                raise
        return self.f

    def __call__(self, *args):
        f = self.build()
        r = f.call([ca.DM(np.asarray(a, dtype=float)) for a in args])
        if len(r) == 1:
            return arr(r[0])
        return [arr(x) for x in r]


# --------------------------------------------------------------------------------------
# Group registry
# --------------------------------------------------------------------------------------

ROT_NPARAM = {"quat": 4, "mrp": 3, "dcm": 9, "euler": 3}
SO3_OF = {"quat": lie.SO3Quat, "mrp": lie.SO3Mrp, "dcm": lie.SO3Dcm, "euler": lie.SO3EulerB321}


class GroupInfo:
    """A group under test.  `layout` lists the parameter slots in order:
    ('vec', n) | ('rot', rep) | ('ang',).  `alg_layout` likewise: ('vec', n) | ('rotvec',) | ('ang',)."""

    def __init__(self, name, G, layout, alg_layout, abelian=False, factors=None):
        self.name = name
        self.G = G
        self.alg = G.algebra
        self.layout = layout
        self.alg_layout = alg_layout
        self.abelian = abelian
        self.factors = factors  # list of GroupInfo for direct products
        self.n = G.n_param
        self.na = G.algebra.n_param
        self.mshape = G.matrix_shape
        self._fns = {}

    # -- symbolic helpers
    def _X(self, nm="X"):
        return SX.sym(nm, self.n)

    def _x(self, nm="x"):
        return SX.sym(nm, self.na)

    def fn(self, key):
        if key in self._fns:
            return self._fns[key]
        G, alg = self.G, self.alg
        nm = "%s_%s" % (self.name.replace("*", "x").replace("(", "_").replace(")", "").replace("=", ""), key)

        def mk():
            if key == "toM":
                X = self._X()
                return [X], [ca.densify(G.elem(X).to_Matrix())]
            if key == "prod":
                X, Y = self._X("X"), self._X("Y")
                return [X, Y], [ca.densify((G.elem(X) * G.elem(Y)).param)]
            if key == "inv":
                X = self._X()
                return [X], [ca.densify(G.elem(X).inverse().param)]
            if key == "ident":
                return [], [ca.densify(G.identity().param)]
            if key == "log":
                X = self._X()
                return [X], [ca.densify(G.elem(X).log().param)]
            if key == "exp":
                x = self._x()
                return [x], [ca.densify(alg.elem(x).exp(G).param)]
            if key == "Ad":
                X = self._X()
                return [X], [ca.densify(G.elem(X).Ad())]
            if key == "ad":
                x = self._x()
                return [x], [ca.densify(alg.elem(x).ad())]
            if key == "bracket":
                x, y = self._x("x"), self._x("y")
                return [x, y], [ca.densify((alg.elem(x) * alg.elem(y)).param)]
            if key == "algM":
                x = self._x()
                return [x], [ca.densify(alg.elem(x).to_Matrix())]
            if key == "fromM":
                M = SX.sym("M", *self.mshape)
                return [M], [ca.densify(G.from_Matrix(M).param)]
            if key == "alg_fromM":
                M = SX.sym("M", *alg.matrix_shape)
                return [M], [ca.densify(alg.from_Matrix(M).param)]
            if key in ("Jl", "Jr", "Jl_inv", "Jr_inv"):
                x = self._x()
                e = alg.elem(x)
                m = {"Jl": e.left_jacobian, "Jr": e.right_jacobian, "Jl_inv": e.left_jacobian_inv,
                     "Jr_inv": e.right_jacobian_inv}[key]
                r = m()
                if r is None:
                    raise NotImplementedError("%s not offered" % key)
                return [x], [ca.densify(r)]
            if key in ("Ql", "Qr"):
                x = self._x()
                e = alg.elem(x)
                r = e.left_Q() if key == "Ql" else e.right_Q()
                if r is None:
                    raise NotImplementedError
                return [x], [ca.densify(r)]
            if key == "alg_sugar":
                x, y, sc = self._x("x"), self._x("y"), SX.sym("s")
                X, Y = alg.elem(x), alg.elem(y)
                outs = [(X + Y).param, (X - Y).param, (-X).param, (sc * X).param, (X * sc).param, X.vee(), alg.wedge(x).param]
                return [x, y, sc], [ca.densify(o) for o in outs]
            if key == "grp_sugar":
                X, x = self._X("X"), self._x("x")
                Xe, xe = G.elem(X), alg.elem(x)
                return [X, x], [ca.densify((Xe + xe).param), ca.densify((Xe - xe).param)]
            if key in ("gJl", "gJr"):
                X = self._X()
                e = G.elem(X)
                r = e.left_jacobian() if key == "gJl" else e.right_jacobian()
                if r is None:
                    raise NotImplementedError
                return [X], [ca.densify(r)]
            raise KeyError(key)

        f = Fn(nm, mk)
        self._fns[key] = f
        return f

    def numeric(self, key, *args):
        """The same operation called directly on numeric (DM) parameters, as an interactive user does
        (no casadi.Function in between); returns numpy."""
        G, alg = self.G, self.alg
        D = [ca.DM(np.asarray(a, dtype=float)) for a in args]
        with quiet():
            if key == "toM":
                r = G.elem(D[0]).to_Matrix()
            elif key == "prod":
                r = (G.elem(D[0]) * G.elem(D[1])).param
            elif key == "inv":
                r = G.elem(D[0]).inverse().param
            elif key == "log":
                r = G.elem(D[0]).log().param
            elif key == "exp":
                r = alg.elem(D[0]).exp(G).param
            elif key == "Ad":
                r = G.elem(D[0]).Ad()
            elif key == "ad":
                r = alg.elem(D[0]).ad()
            elif key == "bracket":
                r = (alg.elem(D[0]) * alg.elem(D[1])).param
            elif key == "algM":
                r = alg.elem(D[0]).to_Matrix()
            elif key in ("Jl", "Jr", "Jl_inv", "Jr_inv"):
                e = alg.elem(D[0])
                r = {"Jl": e.left_jacobian, "Jr": e.right_jacobian, "Jl_inv": e.left_jacobian_inv, "Jr_inv": e.right_jacobian_inv}[key]()
            elif key in ("Ql", "Qr"):
                e = alg.elem(D[0])
                r = e.left_Q() if key == "Ql" else e.right_Q()
            else:
                raise KeyError(key)
            return arr(ca.evalf(ca.densify(ca.SX(r))))

    def toM(self, X):
        return self.fn("toM")(X)

    def prod(self, X, Y):
        return vec(self.fn("prod")(X, Y))

    def inv(self, X):
        return vec(self.fn("inv")(X))

    def ident(self):
        return vec(self.fn("ident")())

    def log(self, X):
        return vec(self.fn("log")(X))

    def exp(self, x):
        return vec(self.fn("exp")(x))

    def algM(self, x):
        return self.fn("algM")(x)


def _se3(rep):
    return _se3m.SE3LieGroup(SO3=SO3_OF[rep])


def _se23(rep):
    return _se23m.SE23LieGroup(SO3=SO3_OF[rep])


_REG = None


def registry():
    """name -> GroupInfo for every exposed group (public singletons + every SO(3) parameterisation
    plugged into SE(3)/SE_2(3))."""
    global _REG
    if _REG is not None:
        return _REG
    R = {}

    def add(gi):
        R[gi.name] = gi

    with quiet():
        add(GroupInfo("SO2", lie.SO2, [("ang",)], [("ang",)], abelian=True))
        add(GroupInfo("SE2", lie.SE2, [("vec", 2), ("ang",)], [("vec", 2), ("ang",)]))
        add(GroupInfo("R2", lie.R2, [("vec", 2)], [("vec", 2)], abelian=True))
        add(GroupInfo("R3", lie.R3, [("vec", 3)], [("vec", 3)], abelian=True))
        for rep, nm in (("quat", "SO3Quat"), ("mrp", "SO3Mrp"), ("dcm", "SO3Dcm"), ("euler", "SO3EulerB321")):
            add(GroupInfo(nm, SO3_OF[rep], [("rot", rep)], [("rotvec",)]))
        add(GroupInfo("SE3Quat", lie.SE3Quat, [("vec", 3), ("rot", "quat")], [("vec", 3), ("rotvec",)]))
        add(GroupInfo("SE3Mrp", lie.SE3Mrp, [("vec", 3), ("rot", "mrp")], [("vec", 3), ("rotvec",)]))
        add(GroupInfo("SE3(Dcm)", _se3("dcm"), [("vec", 3), ("rot", "dcm")], [("vec", 3), ("rotvec",)]))
        add(GroupInfo("SE3(Euler)", _se3("euler"), [("vec", 3), ("rot", "euler")], [("vec", 3), ("rotvec",)]))
        add(GroupInfo("SE23Quat", lie.SE23Quat, [("vec", 3), ("vec", 3), ("rot", "quat")],
                      [("vec", 3), ("vec", 3), ("rotvec",)]))
        add(GroupInfo("SE23Mrp", lie.SE23Mrp, [("vec", 3), ("vec", 3), ("rot", "mrp")],
                      [("vec", 3), ("vec", 3), ("rotvec",)]))
        add(GroupInfo("SE23(Dcm)", _se23("dcm"), [("vec", 3), ("vec", 3), ("rot", "dcm")],
                      [("vec", 3), ("vec", 3), ("rotvec",)]))
        add(GroupInfo("SE23(Euler)", _se23("euler"), [("vec", 3), ("vec", 3), ("rot", "euler")],
                      [("vec", 3), ("vec", 3), ("rotvec",)]))
    _REG = R
    return R


def direct_product(names):
    """Build G1*G2[*G3] with the public `*` operator; returns a GroupInfo."""
    R = registry()
    infos = [R[n] for n in names]
    with quiet():
        G = infos[0].G
        for gi in infos[1:]:
            G = G * gi.G
    layout = [s for gi in infos for s in gi.layout]
    alg_layout = [s for gi in infos for s in gi.alg_layout]
    return GroupInfo("*".join(names), G, layout, alg_layout, abelian=all(g.abelian for g in infos), factors=infos)


# fixed list of generated direct products (names only; drawn once, then fixed so that cell names —
# the root-cause keys — are stable across seeds)
PRODUCTS_QUICK = [
    ("SO3Mrp", "R3"),
    ("SO3Quat", "R3"),
    ("SE2", "SO2"),
    ("SE3Quat", "R2"),
    ("SO3Dcm", "SE2"),
    ("SE23Mrp", "SO3Quat", "R3"),
    ("R2", "SO3EulerB321", "SE3Mrp"),
    ("SE3Mrp", "SE3Quat"),  # repeated non-abelian algebra
    ("SO3Quat", "SO3EulerB321", "SO3Mrp"),  # three times the same algebra, different parameterisations
    ("SE2", "R3", "SE2"),  # the same group object twice, in non-adjacent slots
    ("SO3Mrp", "SO3Mrp"),
]
PRODUCTS_THOROUGH = PRODUCTS_QUICK + [
    ("SO2", "SO2"),
    ("SE23Quat", "SE2"),
    ("R3", "R3", "R2"),
    ("SE3Quat", "R2", "SE3Quat"),
    ("SO3Dcm", "SO3Dcm"),
    ("SE3(Dcm)", "SO2"),
    ("SE23(Euler)", "R2"),
    ("SO3Quat", "SE23Quat", "SE3(Euler)"),
]

_PROD_CACHE = {}


def product_info(names):
    names = tuple(names)
    if names not in _PROD_CACHE:
        _PROD_CACHE[names] = direct_product(names)
    return _PROD_CACHE[names]
