"""Thorough-tier cells that run a coverage-guided campaign (atheris / libFuzzer, tools/fuzz_cell.py) over an existing cell's
strategy and check, in a subprocess."""
from __future__ import annotations

import json
import os
import re
import shutil
import subprocess
import tempfile

from hypothesis import strategies as st

from vlib.harness import Cell, Violation, require, VERIF
from vlib import harness as _h


def atheris_cell(name, modname, stratname, checkname, instrument, runs, tag):
    def check(case):
        deps = os.path.join(VERIF, ".deps")
        if not os.path.isdir(os.path.join(deps, "atheris")):
            r = subprocess.run(["/venv/bin/pip", "install", "-q", "--no-index", "--find-links", "/opt/veriftools/wheels", "--target", deps,
                                "atheris"], capture_output=True, text=True)
            if r.returncode != 0:
                require(False)  # atheris not installable here: campaign skipped (counted as discarded)
        out = tempfile.mkdtemp(prefix="fz_")
        try:
            env = dict(os.environ, PYTHONHASHSEED="0")
            r = subprocess.run(["/venv/bin/python", os.path.join(VERIF, "tools", "fuzz_cell.py"), modname, stratname, checkname,
                                "--instrument", ",".join(instrument), "--runs", str(case["runs"]), "--seed", str(case["seed"]), "--out", out],
                               capture_output=True, text=True, env=env, timeout=7200, cwd=VERIF)
            cnt = {}
            if os.path.exists(os.path.join(out, "counters.json")):
                cnt = json.load(open(os.path.join(out, "counters.json")))
            m_ = re.findall(r"cov: (\d+) ft: (\d+)", r.stderr)
            stats = {"execs": cnt.get("execs"), "checked": cnt.get("checked"), "discarded": cnt.get("discarded"),
                     "final_cov_edges": int(m_[-1][0]) if m_ else None, "final_features": int(m_[-1][1]) if m_ else None,
                     "runs_requested": case["runs"], "libfuzzer_seed": case["seed"], "instrumented": instrument}
            os.makedirs(os.path.join(_h.OUT, "evidence"), exist_ok=True)
            json.dump(stats, open(os.path.join(_h.OUT, "evidence", ".atheris_%s.json" % tag), "w"))
            vp = os.path.join(out, "violation.json")
            if os.path.exists(vp):
                v = json.load(open(vp))
                raise Violation("atheris campaign: " + v["message"], fuzz_case=v["case"])
            if r.returncode != 0:
                raise Violation("atheris campaign %s ended with exit status %d: %s" % (name, r.returncode, (r.stderr or "")[-400:]))
        finally:
            shutil.rmtree(out, ignore_errors=True)

    return Cell(name, st.integers(1, 2**30).map(lambda s_: {"runs": runs, "seed": s_}), check, lambda c: True, None,
                quick=0, thorough=1, shrink=False, shards_thorough=1, weight=1e6, case_limit=4 * 3600)


def atheris_stats(tags):
    def f():
        out = {}
        for t in tags:
            p = os.path.join(_h.OUT, "evidence", ".atheris_%s.json" % t)
            if os.path.exists(p):
                out[t] = json.load(open(p))
                os.remove(p)
        return {"atheris_campaigns": out} if out else {}

    return f
