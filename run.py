#!/venv/bin/python
"""Single entry point:  run.py <ID> [--tier quick|thorough] [--replay FILE] [--seed N]

exit 0: property held on everything explored (KNOWN-FINDING lines allowed)
exit 1: at least one 'VIOLATION property=<id> replay=<path>' line
exit 2: harness error (never a violation)
"""
import argparse
import importlib
import os
import sys
import traceback

HERE = os.path.dirname(os.path.abspath(__file__))


def main():
    ap = argparse.ArgumentParser()
    ap.add_argument("prop")
    ap.add_argument("--tier", default=os.environ.get("VERIF_TIER", "quick"), choices=["quick", "thorough"])
    ap.add_argument("--seed", type=int, default=None)
    ap.add_argument("--replay", default=None)
    ap.add_argument("--cells", default=None, help="fnmatch pattern: only run matching cells (debugging)")
    args = ap.parse_args()

    if os.environ.get("PYTHONHASHSEED") != "0":
        os.environ["PYTHONHASHSEED"] = "0"
        os.execv(sys.executable, [sys.executable] + sys.argv)

    seed = args.seed
    if seed is None:
        try:
            seed = int(os.environ.get("VERIF_SEED", "1"))
        except ValueError:
            seed = 1
    os.chdir(HERE)
    sys.path.insert(0, HERE)
    deps = os.path.join(HERE, ".deps")
    if os.path.isdir(deps):
        sys.path.insert(1, deps)
    pid = args.prop.upper()
    try:
        import glob

        mods = glob.glob(os.path.join(HERE, "props", pid.lower() + "_*.py"))
        if len(mods) != 1:
            print("unknown property %s" % pid, file=sys.stderr)
            return 2
        modname = "props." + os.path.basename(mods[0])[:-3]
        from vlib import harness

        mod = importlib.import_module(modname)
        spec = mod.build(args.tier)
        cells = spec["cells"]
        if args.cells:
            import fnmatch

            cells = [c for c in cells if fnmatch.fnmatch(c.name, args.cells)]
        rp = args.replay
        if rp is not None and not os.path.isabs(rp):
            rp = os.path.join(HERE, rp)
        return harness.run_property(
            pid,
            cells,
            rule=spec["rule"],
            assumptions=spec.get("assumptions", ()),
            matchers=spec.get("matchers"),
            tier=args.tier,
            seed=seed,
            replay=rp,
            extra_coverage=spec.get("extra_coverage"),
            level=spec.get("level", "exploration"),
            require_classes=spec.get("require_classes") if not args.cells else None,
        )
    except SystemExit:
        raise
    except BaseException:
        traceback.print_exc()
        print("HARNESS-ERROR while running %s" % pid, file=sys.stderr)
        return 2


if __name__ == "__main__":
    sys.exit(main())
