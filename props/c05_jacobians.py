"""C05 — Jacobians are the true differentials of exp and of the attitude kinematics."""
from __future__ import annotations

import math

import numpy as np
from hypothesis import strategies as st

from vlib import cy, gens, ref
from vlib.harness import Cell, Violation, require
from props import common_lie as L

PI = math.pi
RULE = (
    "Cases: algebra vectors of so(3), se(3), se_2(3) with rotation angle stratified over [0, 6.0] rad (0, denormal, "
    "tiny, series switches to the ulp, mid, near pi, pi, beyond pi) and translational parts N*10^k; unit quaternions "
    "of both signs, MRPs inside/outside the unit ball, angular velocities N*10^k. Oracle: the directional derivative "
    "of the matrix exponential d/de expm(hat(x+e d)) expm(-hat(x)) by complex-step differentiation through "
    "scipy.linalg.expm (quick) or 80-digit mpmath central differences (thorough), projected on the algebra basis. "
    "Non-trivial: rotation angle > 1e-2 and non-zero translational parts (w != 0 for the kinematic cells); distinct "
    "= hash of (cell, inputs rounded to 9 digits)."
)
A_STRATA = ("zero", "denormal", "tiny", "switch", "mid", "nearpi", "pi", "beyond")
MAXA = 6.0
ALGS = {"so3": "SO3Quat", "se3": "SE3Quat", "se23": "SE23Quat"}


def fd_jacobian(gi, x, side, tier):
    """Columns J e_i = vee( d/de [ expm(hat(x+e e_i)) ] expm(-hat(x)) ) (left) or
    vee( expm(-hat(x)) d/de[expm(hat(x+e e_i))] ) (right)."""
    n = gi.na
    E = L.basis_matrices(gi)
    J = np.zeros((n, n))
    if tier == "thorough":
        import mpmath as mp

        with mp.workdps(90):
            eps = mp.mpf(10) ** (-30)
            Hx = sum((ref.mp_matrix(E[i]) * mp.mpf(float(x[i])) for i in range(n)), mp.zeros(E[0].shape[0]))
            Em = ref.mp_expm(-Hx, 80)
            for i in range(n):
                Ei = ref.mp_matrix(E[i])
                Dp = ref.mp_expm(Hx + Ei * eps, 80)
                Dm = ref.mp_expm(Hx - Ei * eps, 80)
                D = (Dp - Dm) / (2 * eps)
                M = D * Em if side == "left" else Em * D
                col, res = L.vee(gi, ref.mp_to_np(M))
                J[:, i] = col
        return J
    import scipy.linalg

    Hx = L.hat(gi, x)
    Em = scipy.linalg.expm(-Hx)
    h = 1e-30
    for i in range(n):
        D = np.imag(scipy.linalg.expm(Hx.astype(complex) + 1j * h * E[i])) / h
        M = D @ Em if side == "left" else Em @ D
        col, res = L.vee(gi, M)
        J[:, i] = col
    return J


def conj_Ad(gi, M):
    n = gi.na
    E = L.basis_matrices(gi)
    Mi = np.linalg.inv(M)
    A = np.zeros((n, n))
    for i in range(n):
        A[:, i], _ = L.vee(gi, M @ E[i] @ Mi)
    return A


def alg_cells(aname, tier):
    gi = cy.registry()[ALGS[aname]]
    cells = []
    alg = {s_: gens.algebra_element(gi.alg_layout, rot_strata=(s_,), max_angle=MAXA, scales=(-2, -1, 0, 0, 0, 1, 2))
           for s_ in A_STRATA}
    alg["mixed"] = gens.algebra_element(gi.alg_layout, rot_strata=A_STRATA, max_angle=MAXA, scales=(-2, -1, 0, 0, 0, 1, 2))

    def enc(s):
        return gens.encode_algebra(s)

    def nt(case):
        angs, vs = gens.algebra_stats(case)
        return all(a > 1e-2 for a in angs) and all(v > 0 for v in vs)

    def classify(case):
        return ["rot:" + s["stratum"] for s in case if "axis" in s]

    def tscale(case):
        angs, vs = gens.algebra_stats(case)
        return 1.0 + sum(vs)

    def invcond(case):
        angs, vs = gens.algebra_stats(case)
        th = max(angs)
        return 1.0 / max(2 * PI - th, 1e-2)

    for side, key in (("left", "Jl"), ("right", "Jr")):
        def check_fd(case, side=side, key=key):
            x = enc(case)
            J = gi.fn(key)(x)
            if J.shape != (gi.na, gi.na):
                raise Violation("%s: %s has shape %s" % (aname, key, J.shape))
            want = fd_jacobian(gi, x, side, tier)
            L.close(J, want, "%s: %s(x) vs derivative of exp at x" % (aname, key), scale=tscale(case) * 3, x=x.tolist())

        cells.append(Cell("%s/%s_fd" % (aname, key), alg, check_fd, nt, classify, quick=180, thorough=3000,
                          build=lambda key=key: gi.fn(key).build()))

        def check_inv(case, key=key):
            x = enc(case)
            J = gi.fn(key)(x)
            Ji = gi.fn(key + "_inv")(x)
            I = np.eye(gi.na)
            c = invcond(case) ** 2
            sc = float(np.max(np.abs(J))) * float(np.max(np.abs(Ji)))
            L.close(J @ Ji, I, "%s: %s %s_inv vs I" % (aname, key, key), atol=1e-9 * c, rtol=1e-9 * c, scale=sc, x=x.tolist())
            L.close(Ji @ J, I, "%s: %s_inv %s vs I" % (aname, key, key), atol=1e-9 * c, rtol=1e-9 * c, scale=sc, x=x.tolist())

        cells.append(Cell("%s/%s_inv" % (aname, key), alg, check_inv, nt, classify, quick=180, thorough=3000,
                          build=lambda key=key: (gi.fn(key).build(), gi.fn(key + "_inv").build())))

    def check_rel(case):
        x = enc(case)
        Jl, Jr = gi.fn("Jl")(x), gi.fn("Jr")(x)
        Jrm = gi.fn("Jr")(-x)
        sc = tscale(case) * 3
        L.close(Jl, Jrm, "%s: Jl(x) vs Jr(-x)" % aname, scale=sc, x=x.tolist())
        Ad = conj_Ad(gi, ref.expm(L.hat(gi, x)))
        L.close(Jl, Ad @ Jr, "%s: Jl vs Ad_exp(x) Jr" % aname, scale=sc * float(np.max(np.abs(Ad))), x=x.tolist())

    cells.append(Cell("%s/rel" % aname, alg, check_rel, nt, classify, quick=180, thorough=3000))

    # ---- the same Jacobians called directly on numeric (DM) parameters: structurally zero blocks, tiny entries,
    #      sequences of nearly identical arguments
    @st.composite
    def num_case(draw):
        return {"x": draw(alg["mixed"]), "zero": [draw(st.booleans()) and draw(st.booleans()) for _ in gi.alg_layout],
                "tiny": draw(st.sampled_from([None, None, 3e-7, 8e-7, 1.5e-6, 1e-9])), "tiny_at": draw(st.integers(0, gi.na - 1)),
                "pert": [draw(st.sampled_from([0.0, 1e-9, -1e-7, 1e-6])) for _ in range(draw(st.integers(1, 2)))]}

    def num_x(case):
        x = enc(case["x"]).astype(float)
        o = 0
        for z, sl in zip(case["zero"], gi.alg_layout):
            w = sl[1] if sl[0] == "vec" else 3 if sl[0] == "rotvec" else 1
            if z:
                x[o:o + w] = 0.0
            o += w
        if case["tiny"] is not None:
            x[case["tiny_at"]] = case["tiny"]
        return x

    def check_numeric(case):
        x0 = num_x(case)
        keys = ["Jl", "Jr", "Jl_inv", "Jr_inv"] + (["Ql", "Qr"] if aname == "se3" else [])
        for eps in [0.0] + list(case["pert"]):
            x = x0 * (1 + eps)
            for key in keys:
                try:
                    want = gi.fn(key)(x)
                except Exception as e:
                    if type(e).__name__ == "NotOffered":
                        continue
                    raise
                got = gi.numeric(key, x)
                L.close(got, want, "%s: %s called on numeric parameters vs the symbolic function" % (aname, key), atol=1e-12, rtol=1e-12,
                        scale=float(np.max(np.abs(want))), x=x.tolist())

    cells.append(Cell("%s/numeric_mode" % aname, num_case(), check_numeric, lambda c: nt(c["x"]),
                      lambda c: ["zero-block" if any(c["zero"]) else "no-zero-block", "tiny" if c["tiny"] else "no-tiny"], quick=60, thorough=800))

    if aname == "se3":
        def check_Q(case):
            x = enc(case)
            Ql, Qr = gi.fn("Ql")(x), gi.fn("Qr")(x)
            Jl = fd_jacobian(gi, x, "left", tier)
            Jr = fd_jacobian(gi, x, "right", tier)
            sc = tscale(case) * 3
            L.close(Ql, Jl[0:3, 3:6], "se3: left_Q vs off-diagonal block of d exp", scale=sc, x=x.tolist())
            L.close(Qr, Jr[0:3, 3:6], "se3: right_Q vs off-diagonal block of d exp", scale=sc, x=x.tolist())

        cells.append(Cell("se3/Q", alg, check_Q, nt, classify, quick=180, thorough=3000,
                          build=lambda: (gi.fn("Ql").build(), gi.fn("Qr").build())))
    return cells


def _quat_R_dir(q, v):
    """Directional derivative of the (homogeneous quadratic) quaternion->matrix map: exact."""
    return (ref.quat_to_R(q + v) - ref.quat_to_R(q - v)) / 2.0


def _mrp_to_R_c(r):
    n2 = r[0] * r[0] + r[1] * r[1] + r[2] * r[2]
    a = (1 - n2) / (1 + n2)
    b, c, d = 2 * r[0] / (1 + n2), 2 * r[1] / (1 + n2), 2 * r[2] / (1 + n2)
    return np.array([
        [a * a + b * b - c * c - d * d, 2 * (b * c - a * d), 2 * (b * d + a * c)],
        [2 * (b * c + a * d), a * a - b * b + c * c - d * d, 2 * (c * d - a * b)],
        [2 * (b * d - a * c), 2 * (c * d + a * b), a * a - b * b - c * c + d * d]])


def group_cells(tier):
    R = cy.registry()
    gq, gm = R["SO3Quat"], R["SO3Mrp"]
    cells = []

    @st.composite
    def st_q(draw, exact=False):
        if exact:  # forced stratum: half turns whose quaternion has a scalar part of exactly 0.0
            return {"rot": draw(gens.rotation(strata=("pi",))), "w": draw(gens.vector(3, scales=(-3, -1, 0, 0, 1, 2))),
                    "snap": True, "axis_aligned": draw(st.booleans()), "ax": draw(st.integers(0, 2))}
        return {"rot": draw(gens.rotation(strata=("zero", "tiny", "switch", "mid", "nearpi", "pi", "beyond"))),
                "w": draw(gens.vector(3, scales=(-3, -1, 0, 0, 1, 2))),
                # half turns with a scalar part of exactly 0.0, coordinate axes with exactly zero components
                "snap": draw(st.booleans()), "axis_aligned": draw(st.integers(0, 5)) == 0, "ax": draw(st.integers(0, 2))}

    def quat_of(case):
        rot = dict(case["rot"])
        if case.get("axis_aligned"):
            a = [0.0, 0.0, 0.0]
            a[case["ax"]] = 1.0
            rot["axis"] = a
        q = np.array(gens.encode_rot(rot, "quat"))
        if case.get("snap"):
            q = np.where(np.abs(q) < 1e-12, 0.0, q)
            q = q / np.linalg.norm(q)
        return q

    def nt(case):
        return case["rot"]["angle"] > 1e-2 and float(np.linalg.norm(case["w"])) > 0

    def classify(case):
        return ["rot:" + case["rot"]["stratum"], "sign:%d" % case["rot"]["sign"], "shadow:%s" % case["rot"]["shadow"]] + (
            ["exact-zero-scalar"] if float(quat_of(case)[0]) == 0.0 else [])

    for key, side in (("gJl", "left"), ("gJr", "right")):
        def check_q(case, key=key, side=side):
            q = quat_of(case)
            w = np.array(case["w"], float)
            J = gq.fn(key)(q)
            if J.shape != (4, 3):
                raise Violation("SO3Quat %s jacobian has shape %s, expected (4, 3)" % (side, J.shape))
            qd = J @ w
            sc = 1 + float(np.linalg.norm(w))
            if abs(float(q @ qd)) > 1e-12 * sc:
                raise Violation("SO3Quat %s jacobian: q.qdot = %.3e != 0 (unit norm not preserved)" % (side, float(q @ qd)),
                                q=q.tolist(), w=w.tolist())
            Rq = ref.quat_to_R(q)
            dR = _quat_R_dir(q, qd)
            want = ref.hat3(w) @ Rq if side == "left" else Rq @ ref.hat3(w)
            L.close(dR, want, "SO3Quat %s jacobian: R' vs %s" % (side, "[w]x R" if side == "left" else "R [w]x"), scale=sc,
                    q=q.tolist(), w=w.tolist())

        cells.append(Cell("SO3Quat/kin_%s" % side, {"mixed": st_q(), "half-turn-exact": st_q(exact=True)}, check_q, nt, classify, quick=300, thorough=5000,
                          build=lambda key=key: gq.fn(key).build()))

    def check_m(case):
        r = np.array(gens.encode_rot(case["rot"], "mrp"))
        require(float(r @ r) < 1e6)
        w = np.array(case["w"], float)
        J = gm.fn("gJr")(r)
        if J.shape != (3, 3):
            raise Violation("SO3Mrp right jacobian has shape %s" % (J.shape,))
        rd = J @ w
        h = 1e-30
        dR = np.imag(_mrp_to_R_c(r.astype(complex) + 1j * h * rd)) / h
        Rr = ref.mrp_to_R(r)
        sc = 1 + float(np.linalg.norm(w))
        L.close(dR, Rr @ ref.hat3(w), "SO3Mrp right jacobian: R' vs R [w]x", scale=sc, r=r.tolist(), w=w.tolist())

    cells.append(Cell("SO3Mrp/kin_right", st_q(), check_m, nt, classify, quick=300, thorough=5000,
                      build=lambda: gm.fn("gJr").build()))

    # the library's own in-place update of an element (shadow_if_necessary rewrites arg.param): a Jacobian taken from the same
    # element object before and after it must follow the parameters
    def mk_after():
        ca = cy.ca
        r = ca.SX.sym("r", 3)
        X = gm.G.elem(r)
        J1 = X.right_jacobian()
        gm.G.shadow_if_necessary(X)
        J2 = X.right_jacobian()
        return [r], [ca.densify(J1), ca.densify(J2), ca.densify(X.param)]

    after = cy.Fn("SO3Mrp_jac_after_shadow", mk_after)

    def check_after(case):
        r = np.array(gens.encode_rot(case["rot"], "mrp"))
        require(1e-12 < float(r @ r) < 1e6)
        if case.get("snap"):
            r = -r / float(r @ r)  # the other representative: half of the cases start outside the unit ball
        J1, J2, r2 = after(r)
        r2 = cy.vec(r2)
        L.close(J1, gm.fn("gJr")(r), "SO3Mrp right jacobian of an element vs the function of its parameters", atol=1e-12, rtol=1e-12,
                scale=float(np.max(np.abs(J1))), r=r.tolist())
        L.close(J2, gm.fn("gJr")(r2), "SO3Mrp right jacobian of the same element object after shadow_if_necessary rewrote its "
                "parameters vs the function of the new parameters", atol=1e-12, rtol=1e-12, scale=float(np.max(np.abs(J2))) + 1,
                r=r.tolist(), r_after=r2.tolist())

    cells.append(Cell("SO3Mrp/kin_right_after_shadow", st_q(), check_after, nt,
                      lambda c: ["outside" if float(np.dot(*(2 * [np.array(gens.encode_rot(c["rot"], "mrp"))]))) > 1 or c.get("snap") else "inside"],
                      quick=150, thorough=2000, build=lambda: (after.build(), gm.fn("gJr").build())))
    return cells


def build(tier):
    cells = []
    for a in ALGS:
        cells += alg_cells(a, tier)
    cells += group_cells(tier)
    req = {"%s/%s" % (a, k): ["rot:" + s for s in A_STRATA] for a in ALGS for k in ("Jl_fd", "Jr_fd")}
    req["SO3Quat/kin_left"] = ["exact-zero-scalar"]
    req["SO3Quat/kin_right"] = ["exact-zero-scalar"]
    return {
        "cells": cells,
        "rule": RULE,
        "assumptions": [
            "the reference derivative is taken of the matrix exponential of cyecca's own hat map (basis matrices), by "
            "complex-step differentiation through scipy.linalg.expm (quick) / 80-digit mpmath central differences (thorough)",
            "inverse-Jacobian tolerances scale with 1/(2pi-angle)^2; rotation angles up to 6.0 rad",
            "quaternion -> matrix and MRP -> matrix maps used for R' are the harness's textbook formulas",
        ],
        "require_classes": req,
        "matchers": {},
    }
