"""C02 — the group exponential is the matrix exponential of the algebra element."""
from __future__ import annotations

import math

import numpy as np
from hypothesis import strategies as st

from vlib import cy, gens, ref
from vlib.harness import Cell, Violation, require
from props import common_lie as L

PI = math.pi
RULE = (
    "Cases: Hypothesis-generated algebra vectors per (algebra, target group): rotation part axis*theta with theta "
    "stratified over {0, denormal, tiny, each series switch to the ulp, (1e-2, pi), pi-10^u, pi, (pi, 2pi-0.05)}, "
    "translations N*10^k incl. zeros; (s,t) pairs with |s|,|t|,|s+t| <= 1. Oracle: expm(hat(x)) with hat = the "
    "algebra's own to_Matrix evaluated numerically, exponentiated by scipy (quick) / mpmath 50 digits (thorough). "
    "Non-trivial: every rotation slot has theta != 0 and every translation slot is non-zero; distinct = hash of "
    "(cell, inputs rounded to 9 digits)."
)
STRATA = ("zero", "denormal", "tiny", "switch", "mid", "nearpi", "pi", "beyond", "nearpole")


def _scale(x_spec):
    angs, vs = gens.algebra_stats(x_spec)
    return 1.0 + sum(vs)


def make_cells(gi, tier):
    nm = gi.name
    cells = []
    has_rot = any(s[0] == "rotvec" for s in gi.alg_layout)
    alg = gens.algebra_element(gi.alg_layout, rot_strata=STRATA, max_angle=2 * PI - 0.05, se2_max=2 * PI - 1e-2)

    def enc(s):
        return gens.encode_algebra(s)

    def nontrivial(case):
        spec = case["x"] if isinstance(case, dict) else case
        angs, vs = gens.algebra_stats(spec)
        return all(a > 0 for a in angs) and all(v > 0 for v in vs)

    def classify(case):
        spec = case["x"] if isinstance(case, dict) else case
        return ["rot:" + s["stratum"] for s in spec if "axis" in s] or ["norot"]

    def oracle(A):
        if tier == "thorough":
            return ref.mp_to_np(ref.mp_expm(A, 50))
        return ref.expm(A)

    def check_expm(case):
        x = enc(case)
        A = gi.algM(x)
        want = oracle(A)
        X = gi.exp(x)
        if not np.all(np.isfinite(X)):
            raise Violation("%s: exp(x) is not finite: %s" % (nm, X), x=x.tolist())
        got = gi.toM(X)
        tol = L.mat_tol(gi, want)
        L.close(got, want, "%s: M(exp(x)) vs expm(hat(x))" % nm, atol=tol, rtol=1e-9, scale=_scale(case) + np.max(np.abs(want)),
                x=x.tolist())

    if has_rot:
        alg_strat = {s_: gens.algebra_element(gi.alg_layout, rot_strata=(s_,), max_angle=2 * PI - 0.05,
                                              se2_max=2 * PI - 1e-2) for s_ in STRATA}
        alg_strat["mixed"] = alg
    else:
        alg_strat = alg
    cells.append(Cell("%s/expm" % nm, alg_strat, check_expm, nontrivial, classify, quick=300, thorough=5000,
                      build=lambda: (gi.fn("exp").build(), gi.fn("toM").build(), gi.fn("algM").build())))

    # exp(0) = identity exactly; tiny arguments stay at the identity
    alg0 = gens.algebra_element(gi.alg_layout, rot_strata=("zero", "denormal"), scales=(-300, -200, -30), ang_tiny=True)

    def check_exp0(case):
        x = enc(case)
        got = gi.toM(gi.exp(x))
        L.close(got, np.eye(got.shape[0]) + gi.algM(x), "%s: M(exp(~0)) vs I + hat(x)" % nm, atol=1e-15, rtol=0,
                x=x.tolist())
        z = np.zeros(gi.na)
        got0 = gi.toM(gi.exp(z))
        L.close(got0, np.eye(got.shape[0]), "%s: M(exp(0)) vs I (exact)" % nm, atol=1e-15, rtol=0)

    cells.append(Cell("%s/exp0" % nm, alg0, check_exp0, lambda c: True, classify, quick=40, thorough=400,
                      examples=[]))

    def check_neg(case):
        x = enc(case)
        M1 = gi.toM(gi.exp(x))
        M2 = gi.toM(gi.exp(-x))
        want = np.linalg.inv(M1)
        # inside the Euler gimbal band the rotation block is only good to the band tolerance; the translation columns of the
        # inverse are -R^T p, so their error carries the size of the translations
        tol = 2 * L.BAND_TOL * (1 + float(max(np.max(np.abs(want)), np.max(np.abs(M1))))) if (L.band_result(gi, want) or L.band_result(gi, M1)) else 1e-9
        L.close(M2, want, "%s: M(exp(-x)) vs inv(M(exp(x)))" % nm, atol=tol, rtol=1e-9,
                scale=(_scale(case)) ** 2 + np.max(np.abs(want)), x=x.tolist())

    cells.append(Cell("%s/neg" % nm, alg, check_neg, nontrivial, classify, quick=150, thorough=3000))

    @st.composite
    def st_case(draw):
        x = draw(alg)
        s = draw(gens.fl(-1.0, 1.0))
        f = draw(gens.fl(0.0, 1.0))
        lo, hi = max(-1.0, -1.0 - s), min(1.0, 1.0 - s)
        t = lo + f * (hi - lo)
        return {"x": x, "s": s, "t": t}

    def check_oneparam(case):
        x = enc(case["x"])
        s, t = case["s"], case["t"]
        Ms = gi.toM(gi.exp(s * x))
        Mt = gi.toM(gi.exp(t * x))
        Mst = gi.toM(gi.exp((s + t) * x))
        want = Ms @ Mt
        tol = 3 * L.BAND_TOL * (1 + float(np.max(np.abs(want)))) if (L.band_result(gi, want) or L.band_result(gi, Ms) or L.band_result(gi, Mt)) else 1e-9
        L.close(Mst, want, "%s: M(exp((s+t)x)) vs M(exp(sx))M(exp(tx))" % nm, atol=tol, rtol=1e-9,
                scale=(_scale(case["x"])) ** 2 + np.max(np.abs(want)), x=x.tolist(), s=s, t=t)

    cells.append(Cell("%s/oneparam" % nm, st_case(), check_oneparam, nontrivial, classify, quick=150, thorough=3000))

    # X + x := X exp(x) and X - x := X exp(-x) (operator sugar of group elements)
    elem_s = gens.group_element(gi.layout, rot_strata=("zero", "tiny", "mid", "mid", "beyond"))
    algs_s = gens.algebra_element(gi.alg_layout, rot_strata=("zero", "tiny", "mid", "mid"), max_angle=PI - 0.05, scales=(-1, 0, 0, 1))

    def check_plusminus(case):
        X = gens.encode_element(case["X"])
        x = enc(case["x"])
        require(L.euler_input_ok(gi, X))
        Ex, Emx = gi.exp(x), gi.exp(-x)
        for a, b in zip(L.mrp_slices(gi, X), L.mrp_slices(gi, Ex)):
            require(L.mrp_product_ok(a, b))
        for a, b in zip(L.mrp_slices(gi, X), L.mrp_slices(gi, Emx)):
            require(L.mrp_product_ok(a, b))
        P, Mn = [cy.vec(o) for o in gi.fn("grp_sugar")(X, x)]
        MX = gi.toM(X)
        wp, wm = MX @ ref.expm(gi.algM(x)), MX @ ref.expm(-gi.algM(x))
        sc = float(np.max(np.abs(MX))) * (_scale(case["x"]) + 1)
        L.close(gi.toM(P), wp, "%s: M(X + x) vs M(X) expm(hat x)" % nm, atol=3 * L.BAND_TOL if L.band_result(gi, wp) else 1e-9, scale=sc)
        L.close(gi.toM(Mn), wm, "%s: M(X - x) vs M(X) expm(-hat x)" % nm, atol=3 * L.BAND_TOL if L.band_result(gi, wm) else 1e-9, scale=sc)

    cells.append(Cell("%s/plus_minus" % nm, st.fixed_dictionaries({"X": elem_s, "x": algs_s}), check_plusminus,
                      lambda c: nontrivial(c["x"]), None, quick=40, thorough=600, build=lambda: gi.fn("grp_sugar").build()))

    # ---- exp and hat called directly on numeric (DM) parameters, incl. components of 1e-9..1e-6 and exact zeros
    @st.composite
    def num_case(draw):
        return {"x": draw(algs_s), "tiny": draw(st.sampled_from([None, 1e-9, 3e-7, 8e-7, 1e-6, -5e-7])), "at": draw(st.integers(0, gi.na - 1)),
                "zero_at": draw(st.one_of(st.none(), st.integers(0, gi.na - 1)))}

    def check_numeric(case):
        x = enc(case["x"]).astype(float)
        if case["zero_at"] is not None:
            x[case["zero_at"]] = 0.0
        if case["tiny"] is not None:
            x[case["at"]] = case["tiny"]
        Ms, Mn = gi.fn("algM")(x), gi.numeric("algM", x)
        L.close(Mn, Ms, "%s: algebra to_Matrix called on numeric parameters vs the symbolic function" % nm, atol=0, rtol=1e-15,
                scale=float(np.max(np.abs(Ms))), x=x.tolist())
        Xs, Xn = gi.exp(x), cy.vec(gi.numeric("exp", x))
        L.close(gi.toM(Xn), gi.toM(Xs), "%s: exp called on numeric parameters vs the symbolic function (matrix form)" % nm, atol=1e-12, rtol=1e-12,
                scale=float(np.max(np.abs(gi.toM(Xs)))), x=x.tolist())

    cells.append(Cell("%s/numeric_mode" % nm, num_case(), check_numeric, lambda c: nontrivial(c["x"]),
                      lambda c: ["tiny" if c["tiny"] is not None else "no-tiny"], quick=40, thorough=500))
    return cells


def build(tier):
    cells = []
    req = {}
    for gi in L.all_groups(tier):
        cells += make_cells(gi, tier)
        if any(s[0] == "rotvec" for s in gi.alg_layout):
            req["%s/expm" % gi.name] = ["rot:" + s for s in STRATA]
    return {
        "cells": cells,
        "rule": RULE,
        "assumptions": [
            "hat(x) is cyecca's own algebra to_Matrix evaluated numerically (as the property states); the matrix "
            "exponential is scipy.linalg.expm (quick) or an mpmath 50-digit scaling-and-squaring Taylor series (thorough)",
            "tolerance 1e-9*(1+|translations|+|M|); 2.5e-3 rad if an Euler-parameterised result is inside the gimbal band",
            "rotation angle < 2pi - 0.05 (MRP exp is singular at exactly 2pi); |s|,|t|,|s+t| <= 1 keeps the composites in range",
        ],
        "require_classes": req,
        "matchers": {},
    }
