"""C18 — Bezier trajectories meet their boundary conditions; derivatives are exact."""
from __future__ import annotations

import math
from fractions import Fraction

import numpy as np
from hypothesis import strategies as st

from vlib import cy, gens, ref
from vlib.harness import Cell, Violation, require

ca = cy.ca
RULE = (
    "Cases: degree n in 1..8, dimension m in 1..3, control points k/16 in [-8, 8], durations T = k/8 in [1/8, 20], times "
    "t with t/T in [-1, 2] (dyadic), derivative order 0..n; boundary-condition vectors (dyadic, all entries generated "
    "independently) for the cubic and septic solvers; control points for the trajectory functions. Oracle: exact "
    "rational arithmetic (fractions.Fraction) — Bernstein evaluation and polynomial differentiation — applied to the "
    "same inputs (and, for the solvers, to the returned control points taken as exact doubles). Non-trivial: "
    "non-constant curve, 0 < t < T and order >= 1; boundary vectors with all entries non-zero and end != start; "
    "distinct = hash of (cell, inputs rounded to 9 digits)."
)

_f = {}


def bez():
    import os
    os.environ.setdefault("MPLBACKEND", "Agg")
    with cy.quiet():
        import cyecca.models.bezier as b
    return b


def curve_fn(n, m, k):
    key = ("curve", n, m, k)
    if key not in _f:
        def mk():
            B = bez().Bezier
            P = ca.SX.sym("P", m, n + 1)
            T, t = ca.SX.sym("T"), ca.SX.sym("t")
            c = B(P, T)
            if k > 0:
                c = c.deriv(k)
            return [P, T, t], [ca.densify(c.eval(t))]

        _f[key] = cy.Fn("bezier_n%d_m%d_d%d" % (n, m, k), mk)
    return _f[key]


def shipped(name):
    if name not in _f:
        def mk():
            b = bez()
            d = {}
            d.update(b.derive_bezier7())
            d.update(b.derive_bezier3())
            d.update(b.derive_multirotor())
            f = d[name]
            ins = [ca.SX.sym("i%d" % i, f.size1_in(i), f.size2_in(i)) for i in range(f.n_in())]
            outs = f(*ins)
            if not isinstance(outs, (list, tuple)):
                outs = [outs]
            return ins, [ca.densify(o) for o in outs]

        _f[name] = cy.Fn(name, mk)
    return _f[name]


dy16 = st.integers(-128, 128).map(lambda k: k / 16.0)
# durations: k/8 in [1/8, 20], and (every T > 0 is allowed) very short and very long ones, all exactly representable
dyT = st.one_of(st.integers(1, 160).map(lambda k: k / 8.0), st.integers(1, 160).map(lambda k: k / 8.0),
                st.integers(4, 20).map(lambda k: 2.0 ** -k), st.integers(4, 20).map(lambda k: 3 * 2.0 ** -k),
                st.integers(5, 10).map(lambda k: 2.0 ** k))


@st.composite
def tT(draw):
    T = draw(dyT)
    mode = draw(st.integers(0, 7))
    if mode == 0:
        t = 0.0
    elif mode == 1:
        t = T
    elif mode == 2:
        t = T * draw(st.sampled_from([-1.0, -0.25, 1.5, 2.0]))
    else:
        t = T * draw(st.integers(1, 63)) / 64.0
    return T, t


def F(x):
    return Fraction(float(x))


def exact_curve(Prow, T, t, k):
    c = ref.bernstein_poly_coeffs([F(p) for p in Prow], F(T))
    ck = ref.poly_deriv(c, k) if k else c
    val = ref.poly_eval(ck, F(t))
    mag = sum(abs(a) * abs(F(t)) ** j for j, a in enumerate(ck))
    return float(val), float(mag)


def cmp(got, want, mag, what, **d):
    got, want = float(got), float(want)
    if not math.isfinite(got):
        raise Violation("%s: non-finite value %r" % (what, got), **d)
    tol = 1e-9 * (1.0 + mag)
    if abs(got - want) > tol:
        raise Violation("%s: got %.12g, exact %.12g (|diff| %.3e > %.3e)" % (what, got, want, abs(got - want), tol), **d)


def make_cells(tier):
    cells = []
    # ---- eval / deriv for generic degree and dimension
    @st.composite
    def curve_case(draw):
        n = draw(st.integers(1, 8))
        m = draw(st.integers(1, 3))
        k = draw(st.integers(0, n))
        T, t = draw(tT())
        P = [[draw(dy16) for _ in range(n + 1)] for _ in range(m)]
        return {"n": n, "m": m, "k": k, "T": T, "t": t, "P": P}

    def check_curve(case):
        n, m, k = case["n"], case["m"], case["k"]
        require(1 <= n <= 8 and 1 <= m <= 3 and 0 <= k <= n and case["T"] > 0)
        P = np.array(case["P"], float)
        got = cy.vec(curve_fn(n, m, k)(P, case["T"], case["t"]))
        if got.shape[0] != m:
            raise Violation("Bezier (degree %d, derivative order %d) of a %d-dimensional curve evaluates to %d values" % (n, k, m, got.shape[0]), **case)
        for i in range(m):
            want, mag = exact_curve(case["P"][i], case["T"], case["t"], k)
            cmp(got[i], want, mag, "Bezier degree %d, derivative order %d, coordinate %d" % (n, k, i), **case)
        if k == 0:
            g0 = cy.vec(curve_fn(n, m, 0)(P, case["T"], 0.0))
            g1 = cy.vec(curve_fn(n, m, 0)(P, case["T"], case["T"]))
            for i in range(m):
                cmp(g0[i], case["P"][i][0], abs(case["P"][i][0]), "Bezier start point (t=0)", **case)
                cmp(g1[i], case["P"][i][-1], sum(abs(x) for x in case["P"][i]), "Bezier end point (t=T)", **case)

    cells.append(Cell("curve/eval_deriv", curve_case(), check_curve,
                      lambda c: c["k"] >= 1 and 0 < c["t"] < c["T"] and any(len(set(r)) > 1 for r in c["P"]),
                      lambda c: ["n=%d" % c["n"], "k=%d" % c["k"], "m=%d" % c["m"],
                                 "t:" + ("0" if c["t"] == 0 else "T" if c["t"] == c["T"] else "inside" if 0 < c["t"] < c["T"] else "outside")],
                      quick=1200, thorough=30000))

    # ---- the class used directly with numeric control points (DM / numpy / SX constants), one object used several times
    @st.composite
    def reuse_case(draw):
        n = draw(st.integers(1, 6))
        m = draw(st.integers(1, 3))
        T = draw(dyT)
        ops = [(draw(st.integers(0, n)), T * draw(st.integers(0, 64)) / 64.0) for _ in range(draw(st.integers(2, 4)))]
        return {"n": n, "m": m, "T": T, "P": [[draw(dy16) for _ in range(n + 1)] for _ in range(m)], "ops": ops,
                "kind": draw(st.sampled_from(["DM", "DM", "numpy", "SX", "numpy_int"]))}

    def check_reuse(case):
        n, m, T = case["n"], case["m"], case["T"]
        require(1 <= n <= 8 and 1 <= m <= 3 and T >= 2.0 ** -21 and all(0 <= k <= n for k, _ in case["ops"]))
        P0 = np.array(case["P"], float)
        if case["kind"] == "numpy_int":  # integer-dtype ndarray of control points (seed C18-r6B): same curve as its float copy
            P0 = np.rint(P0)
            require(bool(np.all(np.abs(P0) < 2 ** 31)))
            case = dict(case, P=P0.tolist())
            P = P0.astype(np.int64)
        else:
            P = {"DM": ca.DM(P0), "numpy": P0.copy(), "SX": ca.SX(ca.DM(P0))}[case["kind"]]
        with cy.quiet():
            c = bez().Bezier(P, T)
            for step, (k, t) in enumerate(case["ops"]):
                cc = c.deriv(k) if k else c
                got = np.array(ca.evalf(ca.densify(ca.SX(cc.eval(t)))), float).reshape(-1)
                if got.shape[0] != m:
                    raise Violation("Bezier (numeric control points): operation %d returns %d values for a %d-dimensional curve" % (step, got.shape[0], m), **case)
                for i in range(m):
                    want, mag = exact_curve(case["P"][i], T, t, k)
                    cmp(got[i], want, mag, "Bezier on %s control points, operation %d on the same object (derivative order %d, t = %g), "
                        "coordinate %d" % (case["kind"], step, k, t, i), **case)
        after = np.array(ca.DM(P) if case["kind"] != "SX" else ca.evalf(P), float).reshape(m, n + 1)
        if not np.array_equal(after, P0):
            raise Violation("Bezier changed the caller's %s control points: %s -> %s" % (case["kind"], P0.tolist(), after.tolist()), **case)

    cells.append(Cell("curve/numeric_reuse", reuse_case(), check_reuse, lambda c: any(len(set(r)) > 1 for r in c["P"]),
                      lambda c: ["kind:" + c["kind"]], quick=400, thorough=6000))

    # ---- boundary value solvers
    def bc_cell(name, solve, nb, labels):
        @st.composite
        def bc_case(draw):
            return {"wp0": [draw(dy16) for _ in range(nb)], "wp1": [draw(dy16) for _ in range(nb)], "T": draw(dyT)}

        def check_bc(case):
            require(case["T"] >= 2.0 ** -21)
            P = cy.vec(shipped(solve)(case["wp0"], case["wp1"], case["T"]))
            if not np.all(np.isfinite(P)):
                raise Violation("%s returned non-finite control points %s" % (solve, P.tolist()), **case)
            sc = max(abs(x) * case["T"] ** i for wp in (case["wp0"], case["wp1"]) for i, x in enumerate(wp))
            for end, tt, wp in (("start", 0.0, case["wp0"]), ("end", case["T"], case["wp1"])):
                for k in range(nb):
                    got, mag = exact_curve(P.tolist(), case["T"], tt, k)
                    tol = 1e-8 * (1.0 + sc) / case["T"] ** k
                    if abs(got - wp[k]) > tol:
                        raise Violation("%s: the curve through the returned control points has %s = %.12g at the %s, "
                                        "requested %.12g" % (solve, labels[k], got, end, wp[k]), P=P.tolist(), **case)

        cells.append(Cell(name, bc_case(), check_bc,
                          lambda c: all(x != 0 for x in c["wp0"] + c["wp1"]) and c["wp0"] != c["wp1"], None,
                          quick=600, thorough=12000, build=lambda: shipped(solve).build()))

    bc_cell("cubic/boundary_conditions", "bezier3_solve", 2, ["position", "velocity"])
    bc_cell("septic/boundary_conditions", "bezier7_solve", 4, ["position", "velocity", "acceleration", "jerk"])

    # ---- trajectory functions: rows are successive exact derivatives
    def traj_cell(name, fn, npts, rows):
        @st.composite
        def tr_case(draw):
            T, t = draw(tT())
            return {"T": T, "t": t, "P": [draw(dy16) for _ in range(npts)]}

        def check_tr(case):
            require(case["T"] >= 2.0 ** -21)
            r = cy.vec(shipped(fn)(case["t"], case["T"], np.array(case["P"]).reshape(1, -1)))
            if r.shape[0] != rows:
                raise Violation("%s returns %d rows, expected %d" % (fn, r.shape[0], rows))
            for k in range(rows):
                want, mag = exact_curve(case["P"], case["T"], case["t"], k)
                cmp(r[k], want, mag, "%s row %d (derivative order %d)" % (fn, k, k), **case)

        cells.append(Cell(name, tr_case(), check_tr, lambda c: 0 < c["t"] < c["T"] and len(set(c["P"])) > 1, None,
                          quick=600, thorough=12000, build=lambda: shipped(fn).build()))

    traj_cell("cubic/traj", "bezier3_traj", 4, 3)
    traj_cell("septic/traj", "bezier7_traj", 8, 5)

    @st.composite
    def mr_case(draw):
        T, t = draw(tT())
        return {"T": T, "t": t, "PX": [draw(dy16) for _ in range(8)], "PY": [draw(dy16) for _ in range(8)],
                "PZ": [draw(dy16) for _ in range(8)], "Ppsi": [draw(dy16) for _ in range(4)]}

    def check_mr(case):
        require(case["T"] >= 2.0 ** -21)
        row = lambda v: np.array(v).reshape(1, -1)
        outs = shipped("bezier_multirotor")(case["t"], case["T"], row(case["PX"]), row(case["PY"]), row(case["PZ"]), row(case["Ppsi"]))
        x, y, z, psi, dpsi, ddpsi, v, a, j, s = [cy.vec(o) for o in outs]
        for lab, val, P, k in (("x", x[0], case["PX"], 0), ("y", y[0], case["PY"], 0), ("z", z[0], case["PZ"], 0),
                               ("psi", psi[0], case["Ppsi"], 0), ("psidot", dpsi[0], case["Ppsi"], 1), ("psiddot", ddpsi[0], case["Ppsi"], 2)):
            want, mag = exact_curve(P, case["T"], case["t"], k)
            cmp(val, want, mag, "bezier_multirotor %s" % lab, **case)
        for lab, vec_, k in (("v", v, 1), ("a", a, 2), ("j", j, 3), ("s", s, 4)):
            for i, P in enumerate((case["PX"], case["PY"], case["PZ"])):
                want, mag = exact_curve(P, case["T"], case["t"], k)
                cmp(vec_[i], want, mag, "bezier_multirotor %s[%d] vs %d-th derivative of %s" % (lab, i, k, "xyz"[i]), **case)

    cells.append(Cell("multirotor/consistency", mr_case(), check_mr, lambda c: 0 < c["t"] < c["T"], None,
                      quick=400, thorough=8000, build=lambda: shipped("bezier_multirotor").build()))
    return cells


def build(tier):
    return {
        "cells": make_cells(tier),
        "rule": RULE,
        "assumptions": [
            "all generated inputs are dyadic rationals, so the Fraction oracle is exact; the double result must agree to "
            "1e-9 * (1 + sum_j |c_j| |t|^j) where c_j are the exact power-basis coefficients of the (derivative) curve",
            "solver outputs are taken as exact doubles and the resulting curve is checked against every requested boundary "
            "condition with tolerance 1e-8 (1 + max_i |bc_i| T^i) / T^k",
        ],
        "matchers": {},
    }
