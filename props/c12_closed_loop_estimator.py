"""C12 — the attitude estimator converges to the truth in closed-loop simulation."""
from __future__ import annotations

import math

import numpy as np
from hypothesis import strategies as st

from vlib import cy, gens, ref
from vlib.harness import Cell, Violation, require
from props import common_lie as L

ca = cy.ca
PI = math.pi
RULE = (
    "Cases (histories): launch.launch_sim runs of the packaged simulator + MRP estimator + logger with noise disabled; "
    "true initial MRP in a box (|component| <= 0.45 without / <= 0.8 total with the initialisation step), true gyro bias "
    "in +-0.08 per axis, initialize in {True, False}, inclination in +-1.2, declination in +-0.5 (set on simulator and "
    "estimator), dt_sim in {1/800, 1/400, 1/200}, dt_imu in {1/400, 1/200, 1/100}, dt_mag in {1/50, 1/20, 1/10}, logger dt "
    "in {1/200, 1/100}, tf in [20, 30] s; invariants over every logged row. A second cell evaluates the simulator's "
    "measurement functions directly on generated states. Non-trivial (runs): initial attitude error >= 0.2 rad or an initial "
    "bias error component >= 0.03 rad/s; distinct = hash of the run parameters."
)
T_CONV = 10.0
ATT_TOL = 0.05
_l = {}


def launch():
    if "m" not in _l:
        import os
        os.environ.setdefault("MPLBACKEND", "Agg")
        with cy.quiet():
            from cyecca.estimate.attitude import launch as m
        _l["m"] = m
    return _l["m"]


@st.composite
def run_case(draw):
    init = draw(st.booleans())
    lim = 0.45
    r = [draw(gens.fl(-lim, lim)) for _ in range(3)]
    if draw(st.integers(0, 2)) == 0:
        # corners of the box, in particular large yaw offsets (heading error beyond 90 degrees when not initialised)
        r = [draw(st.sampled_from([0.0, 0.1, -0.1, 0.3])), draw(st.sampled_from([0.0, 0.1, -0.1, -0.3])),
             draw(st.sampled_from([0.45, -0.45, 0.43, -0.44]))]
    if init and draw(st.booleans()):
        # larger attitudes when the estimator initialises from measurements
        ax = draw(gens.axis())
        k = draw(gens.fl(0.45, 0.8))
        r = [a * k for a in ax]
    b = [draw(gens.fl(-0.08, 0.08)) for _ in range(3)]
    if draw(st.integers(0, 2)) == 0:
        j = draw(st.integers(0, 2))
        b[j] = draw(st.sampled_from([-0.08, 0.08, 0.06, -0.06]))
    return {"r": r, "b": b, "initialize": init, "incl": draw(gens.fl(-1.2, 1.2)), "decl": draw(gens.fl(-0.5, 0.5)),
            "dt_sim": draw(st.sampled_from([1 / 800.0, 1 / 400.0, 1 / 200.0])),
            "dt_imu": draw(st.sampled_from([1 / 400.0, 1 / 200.0, 1 / 100.0, 1 / 50.0])),
            "dt_mag": draw(st.sampled_from([1 / 50.0, 1 / 20.0, 1 / 10.0])),
            "dt_log": draw(st.sampled_from([1 / 200.0, 1 / 100.0])), "tf": float(draw(st.integers(20, 30))),
            "mag_str": draw(st.sampled_from([0.1, 0.5, 1.0])),
            # configured gravity: the shipped value, or another one either given to both nodes or only to the simulator
            # (the estimator then keeps its default 9.8: the readings stay within its +-1 magnitude gate)
            "g": draw(st.sampled_from([9.8, 9.8, 9.81, 9.5, 10.1])), "g_both": draw(st.booleans())}


def do_run(case):
    m = launch()
    dt_imu = max(case["dt_imu"], case["dt_sim"])
    params = {"sim/enable_noise": False, "sim/mag_incl": case["incl"], "sim/mag_decl": case["decl"], "mrp/mag_decl": case["decl"],
              "sim/dt_sim": case["dt_sim"], "sim/dt_imu": dt_imu, "sim/dt_mag": case["dt_mag"], "logger/dt": case["dt_log"],
              "sim/mag_str": case["mag_str"]}
    if case["g"] != 9.8:
        params["sim/g"] = case["g"]
        if case.get("g_both", True):
            params["mrp/g"] = case["g"]
    with cy.quiet():
        log = m.launch_sim({"tf": case["tf"], "estimators": ["mrp"], "initialize": case["initialize"],
                            "x0": list(case["r"]) + list(case["b"]), "name": "verif", "params": params})
    return log


def check_run(case):
    require(all(abs(v) <= 1.0 for v in case["r"]) and all(abs(v) <= 0.1 for v in case["b"]) and 15 <= case["tf"] <= 60 and 9.4 <= case["g"] <= 10.2)
    try:
        log = do_run(case)
    except Violation:
        raise
    except Exception as e:
        raise Violation("closed-loop run raised %s: %s" % (type(e).__name__, str(e)[:300]), **case)
    t = log["time"]
    sim, est, imu, mag, stt = log["sim_attitude"], log["mrp_attitude"], log["imu"], log["mag"], log["mrp_status"]
    g, ms = case["g"], case["mag_str"]
    # ---- sensors: magnitudes and rotation with the true attitude
    B_n = ref.Rz(case["decl"]) @ ref.Ry(-case["incl"]) @ np.array([1.0, 0, 0]) * ms
    n_s = 0
    for i in range(0, len(t), max(1, len(t) // 400)):
        if np.isnan(sim["time"][i]):
            continue
        R = ref.quat_to_R(sim["q"][i])
        if imu["time"][i] == sim["time"][i]:
            a = imu["accel"][i]
            if abs(np.linalg.norm(a) - g) > 1e-6 * g:
                raise Violation("simulated accelerometer magnitude %.9g at t=%.3f, configured g = %g" % (np.linalg.norm(a), t[i], g), **case)
            L.close(a, R.T @ np.array([0, 0, -g]), "simulated accelerometer vs R(q_true)^T (0,0,-g) at t=%.3f" % t[i], atol=1e-6 * g, rtol=0, **case)
            wb = imu["gyro"][i] - sim["omega"][i]
            L.close(wb, sim["b"][i], "simulated gyro - true rate vs true bias at t=%.3f" % t[i], atol=1e-9, rtol=0, **case)
            n_s += 1
        if mag["time"][i] == sim["time"][i]:
            y = mag["mag"][i]
            if abs(np.linalg.norm(y) - ms) > 1e-6 * ms:
                raise Violation("simulated magnetometer magnitude %.9g at t=%.3f, configured strength %g" % (np.linalg.norm(y), t[i], ms), **case)
            L.close(y, R.T @ B_n, "simulated magnetometer vs R(q_true)^T Rz(decl) Ry(-incl) e1 at t=%.3f" % t[i], atol=1e-6 * ms, rtol=0, **case)
    if n_s < 10:
        raise Violation("fewer than 10 synchronous sim/imu rows in the log (%d)" % n_s, **case)
    # ---- no NaN after the estimator's first publication
    first = np.where(~np.isnan(est["time"]))[0]
    if len(first) == 0:
        raise Violation("the estimator never published", **case)
    f0 = first[0]
    if t[f0] > 2.0:
        raise Violation("the estimator published for the first time only at t=%.3f" % t[f0], **case)
    for fld in ("q", "r", "b"):
        if np.any(np.isnan(est[fld][f0:])):
            raise Violation("NaN in estimator output %s after its first publication" % fld, **case)
    # ---- attitude convergence
    sync = (est["time"] == sim["time"]) & (t >= T_CONV)
    idx = np.where(sync)[0]
    if len(idx) < 100:
        raise Violation("too few synchronous estimate/truth rows after t=%g (%d)" % (T_CONV, len(idx)), **case)
    worst, wi = 0.0, None
    for i in idx[:: max(1, len(idx) // 1500)]:
        e = ref.rot_dist(ref.quat_to_R(sim["q"][i]), ref.quat_to_R(est["q"][i]))
        if e > worst:
            worst, wi = e, i
    coarse = max(case["dt_imu"], case["dt_sim"]) > 0.0101  # 50 Hz IMU: 0.2 rad per RK4 step at the simulated 10 rad/s
    att_tol = 0.15 if coarse else ATT_TOL
    if worst > att_tol:
        raise Violation("attitude error %.4f rad at t=%.2f s (> %.2f rad after the %g s transient)" % (worst, t[wi], att_tol, T_CONV), **case)
    # ---- bias convergence: all three components
    last = np.where((t >= case["tf"] - 5.0) & (est["time"] == sim["time"]))[0]
    be = np.mean(est["b"][last] - sim["b"][last], axis=0)
    b0 = -np.array(case["b"])  # estimator starts at zero bias
    for k in range(3):
        tol = max(0.35 * abs(b0[k]), 0.05 if coarse else 0.02)
        if abs(be[k]) > tol:
            raise Violation("gyro-bias component %d: error %.4f rad/s averaged over the last 5 s (initial error %.4f, allowed %.4f) "
                            "- the estimate does not approach the true bias" % (k, be[k], b0[k], tol), bias_err=be.tolist(), **case)
    # ---- corrections are being accepted after the transient
    late = t >= T_CONV
    ar = stt["accel_ret"][late]
    mr = stt["mag_ret"][late]
    if not np.any(ar == 0):
        raise Violation("no accelerometer correction was accepted after t=%g (codes %s)" % (T_CONV, np.unique(ar[~np.isnan(ar)]).tolist()), **case)
    if not np.any(mr == 0):
        raise Violation("no magnetometer correction was accepted after t=%g (codes %s)" % (T_CONV, np.unique(mr[~np.isnan(mr)]).tolist()), **case)


def run_nontrivial(case):
    r = np.array(case["r"])
    ang = 4 * math.atan(float(np.linalg.norm(r)))
    return ang >= 0.2 or max(abs(v) for v in case["b"]) >= 0.03


def run_classify(case):
    return ["init" if case["initialize"] else "noinit", "dt_imu=%g" % case["dt_imu"],
            "g:default" if case["g"] == 9.8 else "g:both" if case.get("g_both", True) else "g:sim_only"]


# ---- direct sensor-model cell -------------------------------------------------------------
_s = {}


def sim_eqs():
    if "s" not in _s:
        import os
        os.environ.setdefault("MPLBACKEND", "Agg")
        with cy.quiet():
            from cyecca.estimate.attitude import algorithms

            _s["s"] = algorithms.eqs()["sim"]
    return _s["s"]


@st.composite
def sens_case(draw):
    return {"rot": draw(gens.rotation(strata=("zero", "tiny", "mid", "mid", "nearpi", "pi", "beyond"), signs=(1,))),
            "b": [draw(gens.fl(-0.1, 0.1)) for _ in range(3)], "g": draw(gens.fl(1.0, 20.0)), "mag_str": 10.0 ** draw(gens.fl(-2.0, 1.0)),
            "incl": draw(gens.fl(-1.5, 1.5)), "decl": draw(gens.fl(-3.0, 3.0)), "omega": draw(gens.vector(3, scales=(-1, 0, 1)))}


def check_sens(case):
    e = sim_eqs()
    r = np.array(gens.encode_rot(case["rot"], "mrp"))
    require(float(r @ r) < 1e6)
    x = np.concatenate([r, case["b"]])
    R = gens.rot_R(case["rot"])
    ya = np.array(e["measure_accel"](x, case["g"], 0.0, np.zeros(3))).reshape(-1)
    ym = np.array(e["measure_mag"](x, case["mag_str"], case["decl"], case["incl"], 0.0, np.zeros(3))).reshape(-1)
    yg = np.array(e["measure_gyro"](x, case["omega"], 0.0, np.zeros(3))).reshape(-1)
    L.close(ya, R.T @ np.array([0, 0, -case["g"]]), "measure_accel vs R^T (0,0,-g)", atol=1e-9 * case["g"], rtol=0, **case)
    B_n = ref.Rz(case["decl"]) @ ref.Ry(-case["incl"]) @ np.array([1.0, 0, 0]) * case["mag_str"]
    L.close(ym, R.T @ B_n, "measure_mag vs R^T Rz(decl) Ry(-incl) e1 strength", atol=1e-9 * case["mag_str"], rtol=0, **case)
    L.close(yg, np.array(case["omega"]) + np.array(case["b"]), "measure_gyro vs omega + bias", atol=1e-12, rtol=1e-12, **case)
    if abs(np.linalg.norm(ya) - case["g"]) > 1e-9 * case["g"] or abs(np.linalg.norm(ym) - case["mag_str"]) > 1e-9 * case["mag_str"]:
        raise Violation("sensor magnitudes %.9g / %.9g differ from the configured g = %g / strength = %g" % (
            np.linalg.norm(ya), np.linalg.norm(ym), case["g"], case["mag_str"]), **case)
    # truth propagation: one simulate step equals R exp([w]x dt) to fourth order and keeps |r| <= 1
    dt = 1.0 / 400
    x1 = np.array(e["simulate"](0.0, x, case["omega"], 0.0, np.zeros(3), dt)).reshape(-1)
    if float(r @ r) <= 1.0:
        if np.linalg.norm(x1[:3]) > 1 + 1e-12:
            raise Violation("simulate returned an MRP of norm %.15g > 1" % np.linalg.norm(x1[:3]), **case)
        th = float(np.linalg.norm(case["omega"])) * dt
        err = ref.rot_dist(ref.mrp_to_R(x1[:3]), R @ ref.rotvec_to_R(np.array(case["omega"]) * dt))
        if err > 0.01 * th**5 + 1e-12:
            raise Violation("simulate: attitude error %.3e vs exact rate integration (theta = %.3g)" % (err, th), **case)


DEFAULTS = {"sim/g": 9.8, "sim/mag_str": 0.1, "sim/mag_incl": 0.0, "sim/mag_decl": 0.0, "sim/dt_imu": 1.0 / 200, "sim/dt_mag": 1.0 / 50,
            "sim/dt_sim": 1.0 / 400, "logger/dt": 1.0 / 200, "mrp/mag_decl": 0.0, "mrp/g": 9.8, "mrp/dt_min_accel": 1.0 / 200,
            "mrp/dt_min_mag": 1.0 / 200, "mrp/std_mag": 2.5e-3, "mrp/std_accel": 35.0e-3}
CHOICES = {"sim/g": [9.5, 9.81, 10.2], "sim/mag_str": [0.5, 0.05, 1.0], "sim/mag_incl": [0.5, -1.0], "sim/mag_decl": [0.2, -0.3],
           "sim/dt_imu": [1 / 100.0, 1 / 400.0], "logger/dt": [1 / 100.0, 1 / 50.0], "mrp/mag_decl": [0.2], "mrp/g": [9.5, 10.2],
           "mrp/dt_min_accel": [1 / 50.0, 1 / 100.0], "mrp/std_mag": [1e-2], "sim/dt_mag": [1 / 20.0]}


@st.composite
def hist_case(draw):
    runs = []
    for _ in range(draw(st.integers(2, 4))):
        keys = draw(st.lists(st.sampled_from(sorted(CHOICES)), max_size=4, unique=True))
        runs.append({"params": {k: draw(st.sampled_from(CHOICES[k])) for k in keys}, "initialize": draw(st.booleans())})
    return {"runs": runs}


_defaults = {}


def learned_defaults():
    """The documented defaults are read from the code itself: a first run without any parameter in a fresh process
    (this function is called before any other launch_sim in the worker)."""
    if not _defaults:
        m = launch()
        with cy.quiet():
            log = m.launch_sim({"tf": 0.02, "estimators": ["mrp"], "initialize": False, "x0": [0, 0, 0, 0, 0, 0], "name": "defaults", "params": {}})
        rec = log["params"][-1]
        for k in rec.dtype.names:
            if k != "time":
                _defaults[k] = float(rec[k])
    return _defaults


def check_history(case):
    m = launch()
    base = learned_defaults()
    for i, r in enumerate(case["runs"]):
        prm = dict(r["params"])
        prm["sim/enable_noise"] = False
        with cy.quiet():
            log = m.launch_sim({"tf": 1.0, "estimators": ["mrp"], "initialize": r["initialize"], "x0": [0.1, -0.1, 0.2, 0.01, 0.0, -0.01],
                                "name": "h%d" % i, "params": prm})
        want = dict(base)
        want.update(r["params"])
        want["sim/enable_noise"] = 0.0
        rec = log["params"][-1]
        for k, v in want.items():
            got = float(rec[k])
            if abs(got - v) > 1e-12 * (1 + abs(v)):
                raise Violation("run %d of a sequence in one process used %s = %r, expected %r (its own params %s; earlier runs: %s)" % (
                    i, k, got, v, r["params"], [x["params"] for x in case["runs"][:i]]), **case)
        a = log["imu"]["accel"]
        a = a[~np.isnan(a[:, 0])]
        y = log["mag"]["mag"]
        y = y[~np.isnan(y[:, 0])]
        if len(a) == 0 or len(y) == 0:
            raise Violation("run %d of a sequence: no sensor messages logged" % i, **case)
        if abs(np.linalg.norm(a[-1]) - want["sim/g"]) > 1e-6 or abs(np.linalg.norm(y[-1]) - want["sim/mag_str"]) > 1e-6 * want["sim/mag_str"]:
            raise Violation("run %d of a sequence: sensor magnitudes %.6g / %.6g, configured %.6g / %.6g" % (
                i, np.linalg.norm(a[-1]), np.linalg.norm(y[-1]), want["sim/g"], want["sim/mag_str"]), **case)
        dtl = np.diff(log["time"])
        if len(dtl) and abs(np.median(dtl) - want["logger/dt"]) > 1e-9:
            raise Violation("run %d of a sequence: logger period %.6g, configured %.6g" % (i, np.median(dtl), want["logger/dt"]), **case)


def build(tier):
    cells = [
        Cell("launch_history", hist_case(), check_history, lambda c: any(r["params"] for r in c["runs"][:-1]),
             lambda c: ["runs:%d" % len(c["runs"])], quick=16, thorough=300, shrink=False, shards_quick=8, shards_thorough=16, weight=500.0),
        Cell("closed_loop", run_case(), check_run, run_nontrivial, run_classify, quick=24, thorough=480, shrink=False,
             shards_quick=8, shards_thorough=16, weight=1000.0, build=lambda: launch()),
        Cell("sensor_model", sens_case(), check_sens, lambda c: c["rot"]["angle"] > 1e-2, None, quick=1500, thorough=30000,
             build=lambda: sim_eqs()),
    ]
    return {
        "cells": cells,
        "rule": RULE,
        "assumptions": [
            "noise is disabled through the documented sim/enable_noise switch (the simulator's np.random.seed() then has no effect)",
            "bounded-horizon reading of 'converges': after a 10 s transient the attitude error (geodesic, sign-insensitive) stays "
            "<= 0.05 rad on every synchronous logged row; each gyro-bias error component averaged over the last 5 s is <= max(0.35 "
            "|initial error|, 0.02) rad/s; thresholds were calibrated on the repaired tree (worst observed 0.02 rad / 0.0085 rad/s) "
            "and keep >= 2.3x margin",
            "dt_imu is clamped to >= dt_sim (the simulator cannot publish faster than it steps); with a 50 Hz IMU (0.2 rad per "
            "prediction step at the simulated rates) the bounds are 0.15 rad / 0.05 rad/s (observed on the repaired tree: 0.063 rad)",
            "launch_history: several launch_sim calls in one process; the parameters each run actually used (the logged params "
            "topic and the sensor magnitudes) must be the documented defaults overridden only by that call's own params",
            "failing runs are not shrunk (each run costs seconds); the replay file holds the generated run parameters",
        ],
        "matchers": {},
    }
