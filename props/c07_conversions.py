"""C07 — SO(3) representation conversions preserve the rotation and yield valid parameters."""
from __future__ import annotations

import math

import numpy as np
from hypothesis import strategies as st

from vlib import cy, gens, ref
from vlib.harness import Cell, Violation, require
from props import common_lie as L

ca = cy.ca
PI = math.pi
RULE = (
    "Cases: rotations (axis, angle) with angle in [0, pi] incl. exactly 0/pi, near-identity and the 2pi/3 trace tie; "
    "axes random, +-e_i and tie axes (1,1,0)/sqrt2, (1,1,1)/sqrt3 so that all four Shepperd branches and their ties "
    "are taken (branch measured and histogrammed); Euler triples at both gimbal poles exactly and at pitch "
    "+-(pi/2 - delta) with delta spanning the 1e-3 band edge; source encodings by the harness in each representation "
    "(quaternion sign +-, also the long way round so that q0 ~ -1; MRP principal and shadow). Oracle: Rodrigues / "
    "3-2-1 matrix of the generated rotation; validity predicates on the output parameters. Non-trivial: rotation "
    "angle > 1e-2; distinct = hash of (cell, inputs rounded to 9 digits)."
)
REPS = ("quat", "mrp", "dcm", "euler")
FROM = {"quat": "from_Quat", "mrp": "from_Mrp", "dcm": "from_Dcm", "euler": "from_Euler"}
TIE_AXES = [[1, 1, 0], [1, 0, 1], [0, 1, 1], [1, 1, 1], [1, -1, 0], [-1, 1, 1], [1, 0, 0], [0, 1, 0], [0, 0, 1],
            [-1, 0, 0], [0, -1, 0], [0, 0, -1]]

_fns = {}


def conv_fn(src, dst, alt=False):
    key = (src, dst, alt)
    if key not in _fns:
        def mk():
            Gd = cy.SO3_OF[dst]
            if src == "matrix":
                M = ca.SX.sym("M", 3, 3)
                return [M], [ca.densify(Gd.from_Matrix(M).param)]
            Gs = cy.SO3_OF[src]
            X = ca.SX.sym("X", Gs.n_param)
            meth = "from_Mrp_alternative" if alt else FROM[src]
            return [X], [ca.densify(getattr(Gd, meth)(Gs.elem(X)).param)]

        _fns[key] = cy.Fn("conv_%s_%s%s" % (src, dst, "_alt" if alt else ""), mk)
    return _fns[key]


_tom = {}


def toM_fn(rep):
    if rep not in _tom:
        def mk():
            G = cy.SO3_OF[rep]
            X = ca.SX.sym("X", G.n_param)
            return [X], [ca.densify(G.elem(X).to_Matrix())]

        _tom[rep] = cy.Fn("toM_" + rep, mk)
    return _tom[rep]


def shadow_fn():
    if "shadow" not in _fns:
        def mk():
            X = ca.SX.sym("r", 3)
            e = cy.lie.SO3Mrp.elem(X)
            cy.lie.SO3Mrp.shadow_if_necessary(e)
            return [X], [ca.densify(e.param)]

        _fns["shadow"] = cy.Fn("shadow_if_necessary", mk)
    return _fns["shadow"]


@st.composite
def rot_case(draw):
    """{'kind': 'aa', axis, angle, sign, shadow, long} or {'kind': 'euler', e: [psi, theta, phi], sign, shadow}"""
    k = draw(st.integers(0, 9))
    sign = int(draw(st.sampled_from([1, -1])))
    shadow = draw(st.booleans())
    longway = draw(st.integers(0, 5)) == 0  # encode quaternion with angle -> angle - 2pi (q0 < 0 side)
    snap = draw(st.booleans())  # round |entries| < 1e-15 of the encoded source to exactly 0 (exact half turns, exact symmetry)
    if k <= 1:
        # gimbal neighbourhood
        psi = draw(gens.fl(-PI, PI))
        phi = draw(gens.fl(-PI, PI))
        sg = draw(st.sampled_from([-1.0, 1.0]))
        m = draw(st.integers(0, 4))
        if m == 0:
            delta = 0.0
        elif m == 1:
            delta = 1e-3 * (1 + draw(st.sampled_from([-1e-2, -1e-6, -1e-9, 1e-9, 1e-6, 1e-2])))
        elif m == 2:
            delta = 10.0 ** draw(gens.fl(-12.0, -3.0))
        else:
            delta = 10.0 ** draw(gens.fl(-3.0, -0.3))
        return {"kind": "euler", "e": [psi, sg * (PI / 2 - delta), phi], "sign": sign, "shadow": shadow, "long": longway, "snap": snap}
    if k == 2:
        ax = draw(st.sampled_from(TIE_AXES))
        n = math.sqrt(sum(a * a for a in ax))
        ax = [a / n for a in ax]
        th = draw(st.sampled_from([PI, 2 * PI / 3, PI - 1e-9, PI / 2, 2 * PI / 3 + 1e-12, 3.0, 1e-3, 0.0]))
        return {"kind": "aa", "axis": ax, "angle": th, "sign": sign, "shadow": shadow, "long": longway, "snap": snap}
    th, s = draw(gens.angle(strata=("zero", "tiny", "switch", "mid", "mid", "mid", "nearpi", "pi"), max_angle=PI))
    return {"kind": "aa", "axis": draw(gens.axis()), "angle": th, "sign": sign, "shadow": shadow, "long": longway, "snap": snap}


def case_R(case):
    if case["kind"] == "euler":
        return ref.euler321_to_R(case["e"])
    return ref.rodrigues(gens.unit_axis(case["axis"]), case["angle"])


def case_axis_angle(case):
    if case["kind"] == "aa":
        return gens.unit_axis(case["axis"]), float(case["angle"])
    w = ref.log_SO3(case_R(case))
    th = float(np.linalg.norm(w))
    if th < 1e-12:
        return np.array([1.0, 0, 0]), 0.0
    return w / th, th


def encode_src(case, rep):
    X = _encode_src(case, rep)
    if case.get("snap") and rep in ("quat", "dcm"):
        X = np.where(np.abs(X) < 1e-15, 0.0, X)
    return X


def _encode_src(case, rep):
    if rep == "euler":
        if case["kind"] == "euler":
            return np.array(case["e"], float)
        R = case_R(case)
        # the generic matrix->Euler formulas lose accuracy when cos(pitch) is tiny; Euler sources near a
        # pole are generated directly as triples (kind == "euler") instead
        require(1.0 - abs(R[2, 0]) > 1e-4)
        return ref.R_to_euler321(R)
    if rep == "dcm":
        return ref.dcm_param(case_R(case))
    ax, th = case_axis_angle(case)
    if rep == "quat":
        if case.get("long"):
            th2, ax2 = 2 * PI - th, -ax  # same rotation, quaternion on the q0 <= 0 side
            return ref.quat_from_axis_angle(ax2, th2, float(case["sign"]))
        return ref.quat_from_axis_angle(ax, th, float(case["sign"]))
    if rep == "mrp":
        r = ref.mrp_from_axis_angle(ax, th, False)
        n2 = float(r @ r)
        if case["shadow"] and n2 > 1e-6:
            r = -r / n2
        return r
    raise ValueError(rep)


def shepperd_branch(R):
    if np.trace(R) > 0:
        return "tr>0"
    d = np.diag(R)
    if d[0] > d[1] and d[0] > d[2]:
        return "R00"
    if d[1] > d[2]:
        return "R11"
    return "R22"


def band_class(R):
    th = math.asin(max(-1.0, min(1.0, -R[2, 0])))
    d = PI / 2 - abs(th)
    if d == 0 or d < 1e-12:
        return "pole"
    if d < 1e-3:
        return "inband"
    return "outband"


def classify(case):
    R = case_R(case)
    out = ["shepperd:" + shepperd_branch(R), "gimbal:" + band_class(R), "kind:" + case["kind"],
           "long" if case.get("long") else "short"]
    if case.get("snap") and case["kind"] == "aa" and case["angle"] == PI:
        out.append("exact-half-turn")
    return out


def nontrivial(case):
    ax, th = case_axis_angle(case)
    return th > 1e-2


def check_valid(p, rep, what, **d):
    p = np.asarray(p, float)
    if not np.all(np.isfinite(p)):
        raise Violation("%s: non-finite parameters %s" % (what, p.tolist()), **d)
    if rep == "quat":
        n = float(np.linalg.norm(p))
        if abs(n - 1) > 1e-12 * 10:
            raise Violation("%s: quaternion norm %.16g != 1" % (what, n), out=p.tolist(), **d)
    elif rep == "mrp":
        n = float(np.linalg.norm(p))
        if n > 1 + 1e-12:
            raise Violation("%s: MRP norm %.16g > 1 (shadow branch returned)" % (what, n), out=p.tolist(), **d)
    elif rep == "dcm":
        R = ref.dcm_from_param(p)
        e = float(np.max(np.abs(R.T @ R - np.eye(3))))
        dt = float(np.linalg.det(R))
        if e > 1e-11 or abs(dt - 1) > 1e-11:
            raise Violation("%s: DCM not orthonormal/right-handed (|R^T R - I| = %.2e, det = %.12f)" % (what, e, dt),
                            out=p.tolist(), **d)
    elif rep == "euler":
        if abs(p[1]) > PI / 2 + 1e-15:
            raise Violation("%s: Euler pitch %.16g outside [-pi/2, pi/2]" % (what, p[1]), out=p.tolist(), **d)


def compare_rot(got_R, want_R, dst_is_euler, what, **d):
    if not np.all(np.isfinite(got_R)):
        raise Violation("%s: non-finite matrix" % what, **d)
    if dst_is_euler and band_class(want_R) in ("inband", "pole"):
        g = ref.rot_dist(got_R, want_R)
        if g > L.BAND_TOL:
            raise Violation("%s: inside the gimbal band, geodesic error %.3e > %.1e" % (what, g, L.BAND_TOL), **d)
        return
    # just outside the band edge the harness and the code may disagree by rounding on which side they are
    th = math.asin(max(-1.0, min(1.0, -want_R[2, 0])))
    if dst_is_euler and gens.euler_in_band(th, 1e-3, 1e-9):
        g = ref.rot_dist(got_R, want_R)
        if g > L.BAND_TOL:
            raise Violation("%s: at the band edge, geodesic error %.3e" % (what, g), **d)
        return
    L.close(got_R, want_R, what, atol=1e-9, rtol=0, **d)


def make_cells(tier):
    cells = []
    strat = rot_case()
    # (a) to_Matrix of every representation is the rotation the harness encoded
    for rep in REPS:
        def check_tom(case, rep=rep):
            X = encode_src(case, rep)
            if rep == "mrp":
                require(float(X @ X) < 1e8)
            got = toM_fn(rep)(X)
            L.close(got, case_R(case), "%s.to_Matrix vs Rodrigues" % rep, atol=1e-9, rtol=0, X=X.tolist())

        cells.append(Cell("toM/%s" % rep, strat, check_tom, nontrivial, classify, quick=300, thorough=5000,
                          build=lambda rep=rep: toM_fn(rep).build()))

    pairs = [(s, d, False) for s in REPS for d in REPS if s != d] + [("matrix", d, False) for d in REPS] + [("mrp", "dcm", True)]
    for src, dst, alt in pairs:
        def check(case, src=src, dst=dst, alt=alt):
            want = case_R(case)
            if src == "matrix":
                X = np.where(np.abs(want) < 1e-15, 0.0, want) if case.get("snap") else want
            else:
                X = encode_src(case, src)
                if src == "mrp":
                    require(float(X @ X) < 1e8)
            out = cy.vec(conv_fn(src, dst, alt)(X))
            what = "%s -> %s%s" % (src, dst, " (alternative)" if alt else "")
            check_valid(out, dst, what, src=np.asarray(X).tolist())
            got = gens.rot_param_to_R(out, dst)
            compare_rot(got, want, dst == "euler", what + ": rotation matrix of the result vs the source rotation",
                        src=np.asarray(X).tolist(), out=out.tolist())
            # the same conversion called directly on numeric (DM) parameters, as an interactive user does
            Gd = cy.SO3_OF[dst]
            with cy.quiet():
                if src == "matrix":
                    r_ = Gd.from_Matrix(ca.SX(ca.DM(np.asarray(X, float)))).param
                else:
                    r_ = getattr(Gd, "from_Mrp_alternative" if alt else FROM[src])(cy.SO3_OF[src].elem(ca.DM(np.asarray(X, float)))).param
                outn = cy.vec(cy.arr(ca.evalf(ca.densify(ca.SX(r_)))))
            check_valid(outn, dst, what + " on numeric parameters", src=np.asarray(X).tolist())
            compare_rot(gens.rot_param_to_R(outn, dst), want, dst == "euler",
                        what + " on numeric parameters: rotation matrix of the result vs the source rotation",
                        src=np.asarray(X).tolist(), out=outn.tolist())

        cells.append(Cell("conv/%s->%s%s" % (src, dst, "_alt" if alt else ""), strat, check, nontrivial, classify,
                          quick=400, thorough=8000, build=lambda src=src, dst=dst, alt=alt: conv_fn(src, dst, alt).build()))

    # shadow_if_necessary
    @st.composite
    def mrp_any(draw):
        c = draw(rot_case())
        c["scale_out"] = draw(st.sampled_from([False, False, True]))
        return c

    def check_shadow(case):
        r = encode_src(case, "mrp")
        require(float(r @ r) < 1e8)
        out = cy.vec(shadow_fn()(r))
        check_valid(out, "mrp", "shadow_if_necessary", r=r.tolist())
        L.close(ref.mrp_to_R(out), ref.mrp_to_R(r), "shadow_if_necessary changes the rotation", atol=1e-9, rtol=0,
                r=r.tolist(), out=out.tolist())
        if float(r @ r) <= 1 - 1e-12 and not np.array_equal(out, r):  # margin: the code and numpy may round |r|^2 = 1 differently
            raise Violation("shadow_if_necessary altered an MRP that is already inside the unit ball", r=r.tolist(), out=out.tolist())

    cells.append(Cell("shadow_if_necessary", mrp_any(), check_shadow, nontrivial,
                      lambda c: classify(c) + ["shadow_src:%s" % c["shadow"]], quick=400, thorough=8000,
                      build=lambda: shadow_fn().build()))
    return cells


def build(tier):
    cells = make_cells(tier)
    req = {"conv/*": ["exact-half-turn", "shepperd:tr>0", "shepperd:R00", "shepperd:R11", "shepperd:R22", "gimbal:pole", "gimbal:inband",
                      "gimbal:outband"]}
    return {
        "cells": cells,
        "rule": RULE,
        "assumptions": [
            "source parameters are produced by the harness's textbook encoders; the expected rotation is the Rodrigues / "
            "3-2-1 Euler matrix of the generated rotation",
            "1e-9 absolute on matrix entries outside the gimbal band; inside it (|pitch| within 1e-3 of pi/2) geodesic error "
            "<= 2.5e-3 rad (2 x band half-width + slack)",
            "validity: |q| = 1 +- 1e-11, |r| <= 1 + 1e-12, R^T R = I and det R = 1 to 1e-11, |pitch| <= pi/2",
            "MRP sources with |r|^2 >= 1e8 (shadow of a rotation below 4e-4 rad) are discarded for conditioning",
        ],
        "require_classes": req,
        "matchers": {},
    }
