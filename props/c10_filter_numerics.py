"""C10 — filter numerics: square-root covariance algebra, factorizations and RK4 are exact."""
from __future__ import annotations

import math
from fractions import Fraction

import numpy as np
from hypothesis import strategies as st

from vlib import cy, gens, ref
from vlib.harness import Cell, Violation, require
from props import common_lie as L

ca = cy.ca
RULE = (
    "Cases: state dimension n in 2..6 (quick) / 2..8 (thorough), measurement dimension m in 1..min(n,4); W lower "
    "triangular with |diag| in [0.3, 3] and off-diagonals in [-1, 1]; F dense N*10^k; Q = A A^T (PSD, rank-deficient "
    "included); H dense incl. zero columns; Rs lower triangular invertible, non-symmetric; SPD matrices A A^T + eps I "
    "for n in 1..8; RK4 on vector fields polynomial in t (dyadic rational data, exact Fraction oracle), linear "
    "y' = A y (Taylor-4 polynomial oracle) and a nonlinear field (observed local order). Functions are built once per "
    "(n, m) from cyecca.util on SX symbols with the sparsity the estimator uses. Non-trivial: n >= 3 and F, H without "
    "zero rows (rk4: h > 0 and non-constant field); distinct = hash of (cell, inputs rounded to 9 digits)."
)

_fn = {}


def util():
    import cyecca.util as u

    return u


def predict_fn(n):
    k = ("pred", n)
    if k not in _fn:
        def mk():
            W = ca.SX.sym("W", ca.Sparsity.lower(n))
            F = ca.SX.sym("F", n, n)
            Q = ca.SX.sym("Q", n, n)
            return [W, F, Q], [ca.densify(util().sqrt_covariance_predict(W, F, Q))]

        _fn[k] = cy.Fn("sqrt_predict_%d" % n, mk)
    return _fn[k]


def correct_fn(n, m):
    k = ("corr", n, m)
    if k not in _fn:
        def mk():
            W = ca.SX.sym("W", ca.Sparsity.lower(n))
            H = ca.SX.sym("H", m, n)
            Rs = ca.SX.sym("Rs", ca.Sparsity.lower(m))
            Wp, K, Ss = util().sqrt_correct(Rs, H, W)
            return [Rs, H, W], [ca.densify(Wp), ca.densify(K), ca.densify(Ss)]

        _fn[k] = cy.Fn("sqrt_correct_%d_%d" % (n, m), mk)
    return _fn[k]


def fact_fn(kind, n):
    k = (kind, n)
    if k not in _fn:
        def mk():
            P = ca.SX.sym("P", n, n)
            f = util().ldl_symmetric_decomposition if kind == "ldl" else util().udu_symmetric_decomposition
            A, D = f(P)
            return [P], [ca.densify(A), ca.densify(D)]

        _fn[k] = cy.Fn("%s_%d" % (kind, n), mk)
    return _fn[k]


def rk4_poly_fn(d):
    k = ("rk4poly", d)
    if k not in _fn:
        def mk():
            t, h = ca.SX.sym("t"), ca.SX.sym("h")
            y = ca.SX.sym("y", d)
            C = ca.SX.sym("C", d, 4)
            f = lambda tt, yy: C[:, 0] + C[:, 1] * tt + C[:, 2] * tt**2 + C[:, 3] * tt**3
            return [t, y, h, C], [ca.densify(util().rk4(f, t, y, h))]

        _fn[k] = cy.Fn("rk4_poly_%d" % d, mk)
    return _fn[k]


def rk4_lin_fn(d):
    k = ("rk4lin", d)
    if k not in _fn:
        def mk():
            t, h = ca.SX.sym("t"), ca.SX.sym("h")
            y = ca.SX.sym("y", d)
            A = ca.SX.sym("A", d, d)
            f = lambda tt, yy: A @ yy
            return [t, y, h, A], [ca.densify(util().rk4(f, t, y, h))]

        _fn[k] = cy.Fn("rk4_lin_%d" % d, mk)
    return _fn[k]


def rk4_nl_fn():
    k = ("rk4nl",)
    if k not in _fn:
        def mk():
            t, h = ca.SX.sym("t"), ca.SX.sym("h")
            y = ca.SX.sym("y", 2)
            f = lambda tt, yy: ca.vertcat(yy[1] + ca.sin(tt), -ca.sin(yy[0]) - 0.1 * yy[1] * yy[0] + ca.cos(2 * tt))
            return [t, y, h], [ca.densify(util().rk4(f, t, y, h))]

        _fn[k] = cy.Fn("rk4_nl", mk)
    return _fn[k]


# ---- generators -----------------------------------------------------------------------

@st.composite
def lower_tri(draw, n, dlo=0.3, dhi=3.0):
    W = [[0.0] * n for _ in range(n)]
    for i in range(n):
        for j in range(i):
            W[i][j] = draw(gens.fl(-1.0, 1.0)) if draw(st.integers(0, 5)) else 0.0
        W[i][i] = draw(gens.fl(dlo, dhi)) * draw(st.sampled_from([1.0, 1.0, 1.0, -1.0]))
    return W


@st.composite
def dense(draw, r, c, scales=(-1, 0, 0, 1), zero_rows=False):
    k = draw(st.sampled_from(list(scales)))
    M = [[draw(gens.fl(-1.0, 1.0)) * 10.0**k for _ in range(c)] for _ in range(r)]
    if zero_rows and draw(st.integers(0, 4)) == 0:
        j = draw(st.integers(0, c - 1))
        for i in range(r):
            M[i][j] = 0.0
    return M


@st.composite
def psd(draw, n):
    r = draw(st.integers(0, n))
    k = draw(st.sampled_from([-3, -1, 0]))
    A = np.array([[draw(gens.fl(-1.0, 1.0)) for _ in range(max(r, 1))] for _ in range(n)]) * 10.0**k
    if r == 0:
        A = A * 0
    return (A @ A.T).tolist()


def tri_check(M, what, tol, **d):
    M = np.asarray(M)
    up = np.triu(M, 1)
    e = float(np.max(np.abs(up))) if up.size else 0.0
    if e > tol:
        raise Violation("%s: strictly upper triangle not zero (max %.3e > %.1e)" % (what, e, tol), **d)


def make_cells(tier):
    cells = []
    ns = range(2, 7) if tier == "quick" else range(2, 9)
    for n in ns:
        @st.composite
        def pred_case(draw, n=n):
            return {"W": draw(lower_tri(n)), "F": draw(dense(n, n, scales=(-1, 0, 0, 1))), "Q": draw(psd(n))}

        def check_pred(case, n=n):
            W, F, Q = (np.array(case[k], float) for k in ("W", "F", "Q"))
            Wd = predict_fn(n)(W, F, Q)
            if not np.all(np.isfinite(Wd)):
                raise Violation("sqrt_covariance_predict(n=%d): non-finite W'" % n, **case)
            P = W @ W.T
            cond = float(np.linalg.cond(W))
            sc = (1 + np.max(np.abs(F))) * (1 + np.max(np.abs(P))) + np.max(np.abs(Q)) + float(np.max(np.abs(Wd)))
            tri_check(Wd, "sqrt_covariance_predict(n=%d): W'" % n, 1e-11 * sc * cond, **case)
            lhs = Wd @ W.T + W @ Wd.T
            rhs = F @ P + P @ F.T + Q
            L.close(lhs, rhs, "sqrt_covariance_predict(n=%d): W'W^T + W W'^T vs F P + P F^T + Q" % n,
                    atol=1e-10 * sc * cond, rtol=0, **case)

        cells.append(Cell("predict/n%d" % n, pred_case(), check_pred,
                          lambda c, n=n: n >= 3 and np.all(np.abs(np.array(c["F"])).sum(axis=1) > 0), lambda c, n=n: ["n=%d" % n],
                          quick=120, thorough=2000, build=lambda n=n: predict_fn(n).build()))

        for m in range(1, min(n, 4) + 1):
            @st.composite
            def corr_case(draw, n=n, m=m):
                return {"W": draw(lower_tri(n, 0.05, 3.0)), "H": draw(dense(m, n, scales=(-1, 0, 0, 1), zero_rows=True)),
                        "Rs": draw(lower_tri(m, 0.05, 3.0))}

            def check_corr(case, n=n, m=m):
                W, H, Rs = (np.array(case[k], float) for k in ("W", "H", "Rs"))
                Wp, K, Ss = correct_fn(n, m)(Rs, H, W)
                for nm_, M in (("W+", Wp), ("K", K), ("Ss", Ss)):
                    if not np.all(np.isfinite(M)):
                        raise Violation("sqrt_correct(n=%d,m=%d): non-finite %s" % (n, m, nm_), **case)
                P = W @ W.T
                R = Rs @ Rs.T
                S = H @ P @ H.T + R
                condS = float(np.linalg.cond(S))
                sc = 1 + float(np.max(np.abs(P))) * (1 + float(np.max(np.abs(H)))) ** 2 + float(np.max(np.abs(R)))
                tag = "sqrt_correct(n=%d,m=%d)" % (n, m)
                L.close(Ss @ Ss.T, S, tag + ": Ss Ss^T vs H P H^T + Rs Rs^T", atol=1e-11 * sc, rtol=0, **case)
                Kw = P @ H.T @ np.linalg.inv(S)
                L.close(K, Kw, tag + ": K vs P H^T S^-1", atol=1e-10 * condS * (1 + float(np.max(np.abs(Kw)))), rtol=0, **case)
                tri_check(Wp, tag + ": W+", 1e-12 * sc, **case)
                tri_check(Ss, tag + ": Ss", 1e-12 * sc, **case)
                Pp = (np.eye(n) - Kw @ H) @ P
                L.close(Wp @ Wp.T, Pp, tag + ": W+ W+^T vs (I - K H) P", atol=1e-10 * condS * sc, rtol=0, **case)
                ev = np.linalg.eigvalsh((P - Wp @ Wp.T + (P - Wp @ Wp.T).T) / 2)
                if ev.min() < -1e-10 * condS * sc:
                    raise Violation(tag + ": P - P+ has a negative eigenvalue %.3e (covariance increased)" % ev.min(), **case)

            cells.append(Cell("correct/n%d_m%d" % (n, m), corr_case(), check_corr,
                              lambda c, n=n: n >= 3 and np.all(np.abs(np.array(c["H"])).sum(axis=1) > 0),
                              lambda c, n=n, m=m: ["n=%d,m=%d" % (n, m), "Rs_sym" if np.allclose(np.array(c["Rs"]), np.array(c["Rs"]).T) else "Rs_nonsym"],
                              quick=80, thorough=1500, build=lambda n=n, m=m: correct_fn(n, m).build()))

    for kind in ("ldl", "udu"):
        for n in range(1, 9):
            @st.composite
            def spd(draw, n=n):
                A = np.array(draw(dense(n, n, scales=(-1, 0, 0, 1))))
                eps = 10.0 ** draw(gens.fl(-3.0, 0.0))
                return {"P": (A @ A.T + eps * (1 + np.max(np.abs(A)) ** 2) * np.eye(n)).tolist()}

            def check_fact(case, kind=kind, n=n):
                P = np.array(case["P"], float)
                P = (P + P.T) / 2
                A, D = fact_fn(kind, n)(P)
                A, D = np.atleast_2d(A), np.atleast_2d(D)
                if not (np.all(np.isfinite(A)) and np.all(np.isfinite(D))):
                    raise Violation("%s(n=%d): non-finite factors" % (kind, n), **case)
                cond = float(np.linalg.cond(P))
                sc = float(np.max(np.abs(P)))
                if not np.array_equal(np.diag(A), np.ones(n)):
                    raise Violation("%s(n=%d): factor diagonal is not exactly 1: %s" % (kind, n, np.diag(A).tolist()), **case)
                off = np.triu(A, 1) if kind == "ldl" else np.tril(A, -1)
                if np.any(off != 0):
                    raise Violation("%s(n=%d): factor is not %s triangular" % (kind, n, "lower" if kind == "ldl" else "upper"), **case)
                if np.any(D - np.diag(np.diag(D)) != 0):
                    raise Violation("%s(n=%d): D is not diagonal" % (kind, n), **case)
                L.close(A @ D @ A.T, P, "%s(n=%d): reconstruction vs P" % (kind, n), atol=1e-12 * sc * cond, rtol=0, **case)

            cells.append(Cell("%s/n%d" % (kind, n), spd(), check_fact, lambda c, n=n: n >= 2, lambda c, n=n: ["n=%d" % n],
                              quick=60, thorough=1000, build=lambda kind=kind, n=n: fact_fn(kind, n).build()))

    # ---- factorizations of SPD matrices given with structural zeros (sparse SX input): fill-in must be handled
    PATTERNS = {
        "arrow_first": lambda n: [(i, j) for i in range(n) for j in range(n) if i == j or i == 0 or j == 0],
        "arrow_last": lambda n: [(i, j) for i in range(n) for j in range(n) if i == j or i == n - 1 or j == n - 1],
        "tridiag": lambda n: [(i, j) for i in range(n) for j in range(n) if abs(i - j) <= 1],
        "one_zero": lambda n: [(i, j) for i in range(n) for j in range(n) if {i, j} != {1, n - 1}],
        "checker": lambda n: [(i, j) for i in range(n) for j in range(n) if (i + j) % 2 == 0 or abs(i - j) == 1 and min(i, j) == 0],
    }

    def sparse_fact_fn(kind, n, pat):
        k = (kind, n, pat)
        if k not in _fn:
            def mk():
                idx = PATTERNS[pat](n)
                sp = ca.Sparsity.triplet(n, n, [i for i, j in idx], [j for i, j in idx])
                P = ca.SX.sym("P", sp)
                f = util().ldl_symmetric_decomposition if kind == "ldl" else util().udu_symmetric_decomposition
                A, D = f(P)
                return [P], [ca.densify(A), ca.densify(D)]

            _fn[k] = cy.Fn("%s_%d_%s" % (kind, n, pat), mk)
        return _fn[k]

    for kind in ("ldl", "udu"):
        for pat in PATTERNS:
            for n in (3, 4, 6):
                @st.composite
                def sp_case(draw, n=n, pat=pat):
                    idx = set(PATTERNS[pat](n))
                    M = np.zeros((n, n))
                    for i in range(n):
                        for j in range(i):
                            if (i, j) in idx:
                                M[i, j] = M[j, i] = draw(gens.fl(-1.0, 1.0))
                    for i in range(n):
                        M[i, i] = float(np.sum(np.abs(M[i]))) + draw(gens.fl(0.1, 2.0))  # diagonally dominant -> SPD
                    return {"P": M.tolist()}

                def check_sp(case, kind=kind, n=n, pat=pat):
                    P = np.array(case["P"], float)
                    idx = PATTERNS[pat](n)
                    sp = ca.Sparsity.triplet(n, n, [i for i, j in idx], [j for i, j in idx])
                    f = sparse_fact_fn(kind, n, pat).build()
                    A, D = [np.array(o, float) for o in f.call([ca.DM(sp, [P[i, j] for (i, j) in sorted(idx, key=lambda t: (t[1], t[0]))])])]
                    if not (np.all(np.isfinite(A)) and np.all(np.isfinite(D))):
                        raise Violation("%s on a %s-sparse SPD matrix (n=%d): non-finite factors" % (kind, pat, n), **case)
                    sc = float(np.max(np.abs(P))) * float(np.linalg.cond(P))
                    L.close(A @ D @ A.T, P, "%s on a %s-sparse SPD matrix (n=%d): reconstruction vs P" % (kind, pat, n),
                            atol=1e-12 * sc, rtol=0, **case)

                cells.append(Cell("%s/sparse_%s_n%d" % (kind, pat, n), sp_case(), check_sp, lambda c: True, None, quick=25, thorough=400,
                                  build=lambda kind=kind, n=n, pat=pat: sparse_fact_fn(kind, n, pat).build()))

    # ---- factorizations of badly scaled SPD matrices (mixed units: P = S C S with S = diag(2^k)): the routines use no
    #      pivoting and are scale invariant, so the reconstruction error relative to sqrt(P_ii P_jj) must stay at round-off
    for kind in ("ldl", "udu"):
        for n in (2, 3, 5):
            @st.composite
            def scaled_spd(draw, n=n):
                A = np.array(draw(dense(n, n, scales=(0,))))
                eps = 10.0 ** draw(gens.fl(-2.0, 0.0))
                C = A @ A.T + eps * (1 + np.max(np.abs(A)) ** 2) * np.eye(n)
                common = draw(st.sampled_from([0, 0, -20, -34, -44, 13]))
                k = [common + (draw(st.integers(-20, 5)) if draw(st.booleans()) else 0) for _ in range(n)]
                return {"C": C.tolist(), "k": k}

            def check_scaled(case, kind=kind, n=n):
                C = np.array(case["C"], float)
                C = (C + C.T) / 2
                require(all(-80 <= k <= 40 for k in case["k"]) and np.all(np.linalg.eigvalsh(C) > 1e-6 * np.max(np.abs(C))))
                S = np.diag([2.0 ** k for k in case["k"]])
                P = S @ C @ S
                A, D = fact_fn(kind, n)(P)
                A, D = np.atleast_2d(A), np.atleast_2d(D)
                if not (np.all(np.isfinite(A)) and np.all(np.isfinite(D))):
                    raise Violation("%s(n=%d) on a scaled SPD matrix: non-finite factors" % (kind, n), **case)
                Si = np.diag([2.0 ** -k for k in case["k"]])
                err = Si @ (A @ D @ A.T - P) @ Si  # error in the units of C (exact rescaling: powers of two)
                tol = 1e-12 * float(np.max(np.abs(C))) * float(np.linalg.cond(C))
                if float(np.max(np.abs(err))) > tol:
                    raise Violation("%s(n=%d): reconstruction of P = S C S (S = diag 2^k) is off by %.3e relative to the scaling "
                                    "(tol %.1e)" % (kind, n, np.max(np.abs(err)), tol), P=P.tolist(), **case)

            cells.append(Cell("%s/scaled_n%d" % (kind, n), scaled_spd(), check_scaled, lambda c: len(set(c["k"])) > 1 or min(c["k"]) < -10,
                              lambda c: ["tiny-pivots" if min(c["k"]) <= -15 else "moderate"], quick=60, thorough=1000,
                              build=lambda kind=kind, n=n: fact_fn(kind, n).build()))

    # ---- measurement matrices given with structural zeros (what the estimators build: sparsify([H1, 0])): the update must
    #      still treat the unmeasured states through their correlation in W
    HPATS = {
        "trailing_zero_cols": lambda n, m: [(i, j) for i in range(m) for j in range(n) if j < max(1, n // 2)],
        "leading_zero_cols": lambda n, m: [(i, j) for i in range(m) for j in range(n) if j >= n // 2],
        "selector": lambda n, m: [(i, i) for i in range(m)],
        "staircase": lambda n, m: [(i, j) for i in range(m) for j in range(n) if j <= i + 1],
    }

    def sparse_correct_fn(n, m, pat):
        k = ("corr_sp", n, m, pat)
        if k not in _fn:
            def mk():
                idx = HPATS[pat](n, m)
                W = ca.SX.sym("W", ca.Sparsity.lower(n))
                H = ca.SX.sym("H", ca.Sparsity.triplet(m, n, [i for i, j in idx], [j for i, j in idx]))
                Rs = ca.SX.sym("Rs", ca.Sparsity.lower(m))
                Wp, K, Ss = util().sqrt_correct(Rs, H, W)
                return [Rs, H, W], [ca.densify(Wp), ca.densify(K), ca.densify(Ss)]

            _fn[k] = cy.Fn("sqrt_correct_sp_%d_%d_%s" % (n, m, pat), mk)
        return _fn[k]

    for pat in HPATS:
        for n, m in ((4, 2), (6, 3), (5, 1)):
            @st.composite
            def spc_case(draw, n=n, m=m):
                return {"W": draw(lower_tri(n, 0.05, 3.0)), "H": draw(dense(m, n, scales=(0,))), "Rs": draw(lower_tri(m, 0.05, 3.0))}

            def check_spc(case, n=n, m=m, pat=pat):
                idx = HPATS[pat](n, m)
                mask = np.zeros((m, n))
                for i, j in idx:
                    mask[i, j] = 1.0
                W, Rs = np.array(case["W"], float), np.array(case["Rs"], float)
                H = np.array(case["H"], float) * mask
                f = sparse_correct_fn(n, m, pat).build()
                spH = ca.Sparsity.triplet(m, n, [i for i, j in idx], [j for i, j in idx])
                rows, cols = spH.get_triplet()
                Hdm = ca.DM(spH, [float(H[r_, c_]) for r_, c_ in zip(rows, cols)])
                spL = lambda k_: ca.Sparsity.lower(k_)
                lo = lambda M, k_: ca.DM(spL(k_), [float(M[r_, c_]) for r_, c_ in zip(*spL(k_).get_triplet())])
                Wp, K, Ss = [np.array(o, float) for o in f.call([lo(Rs, m), Hdm, lo(W, n)])]
                tag = "sqrt_correct(n=%d,m=%d) with a %s-sparse H" % (n, m, pat)
                for nm_, M in (("W+", Wp), ("K", K), ("Ss", Ss)):
                    if not np.all(np.isfinite(M)):
                        raise Violation(tag + ": non-finite %s" % nm_, **case)
                P = W @ W.T
                S = H @ P @ H.T + Rs @ Rs.T
                condS = float(np.linalg.cond(S))
                sc = 1 + float(np.max(np.abs(P))) * (1 + float(np.max(np.abs(H)))) ** 2 + float(np.max(np.abs(Rs @ Rs.T)))
                L.close(Ss @ Ss.T, S, tag + ": Ss Ss^T vs H P H^T + Rs Rs^T", atol=1e-11 * sc, rtol=0, **case)
                Kw = P @ H.T @ np.linalg.inv(S)
                L.close(K, Kw, tag + ": K vs P H^T S^-1", atol=1e-10 * condS * (1 + float(np.max(np.abs(Kw)))), rtol=0, **case)
                tri_check(Wp, tag + ": W+", 1e-12 * sc, **case)
                L.close(Wp @ Wp.T, (np.eye(n) - Kw @ H) @ P, tag + ": W+ W+^T vs (I - K H) P", atol=1e-10 * condS * sc, rtol=0, **case)

            cells.append(Cell("correct/sparseH_%s_n%d_m%d" % (pat, n, m), spc_case(), check_spc, lambda c: True, None, quick=30, thorough=500,
                              build=lambda n=n, m=m, pat=pat: sparse_correct_fn(n, m, pat).build()))

    # ---- measurement update with an accurate measurement (|Rs| << |H W|): the square-root form must keep the small
    #      posterior variance of the measured combination to relative accuracy (oracle: 50-digit arithmetic)
    import mpmath as mp
    for n, m in ((3, 1), (4, 2), (6, 3)):
        @st.composite
        def acc_case(draw, n=n, m=m):
            return {"W": draw(lower_tri(n, 0.3, 3.0)), "H": draw(dense(m, n, scales=(0,))), "Rs": draw(lower_tri(m, 0.5, 2.0)),
                    "r": 10.0 ** draw(st.sampled_from([-1, -3, -4, -5, -6, -7, -8, -9]))}

        def check_acc(case, n=n, m=m):
            W, H = np.array(case["W"], float), np.array(case["H"], float)
            require(1e-10 <= case["r"] <= 1.0)
            Rs = np.array(case["Rs"], float) * case["r"]
            HW = H @ W
            require(float(np.linalg.cond(HW @ HW.T)) < 1e6)
            Wp, K, Ss = correct_fn(n, m)(Rs, H, W)
            if not (np.all(np.isfinite(Wp)) and np.all(np.isfinite(K)) and np.all(np.isfinite(Ss))):
                raise Violation("sqrt_correct(n=%d,m=%d): non-finite result with an accurate measurement (|Rs| = %.0e |H W|)" % (n, m, case["r"]), **case)
            mp.mp.dps = 50
            mW, mH, mR = mp.matrix(W.tolist()), mp.matrix(H.tolist()), mp.matrix(Rs.tolist())
            mP = mW * mW.T
            mS = mH * mP * mH.T + mR * mR.T
            mPp = mP - mP * mH.T * mp.inverse(mS) * mH * mP
            want = np.array((mH * mPp * mH.T).tolist(), dtype=float)  # = R - R S^-1 R, of the size of R
            HWp = H @ Wp  # small (of the size of Rs): formed first, H (W+ W+^T) H^T would cancel catastrophically
            got = HWp @ HWp.T
            sc = float(np.max(np.abs(want)))
            # round-off of the harness's own product H W+ (entries of size |H||W+|, result of size sqrt(sc))
            own = 1e-13 * n * float(np.max(np.abs(H))) * float(np.max(np.abs(Wp))) * math.sqrt(sc)
            tol = 1e-9 * float(np.linalg.cond(Rs)) * sc + own
            if float(np.max(np.abs(got - want))) > tol:
                raise Violation("sqrt_correct(n=%d,m=%d): posterior covariance of the measured combination H P+ H^T is off by %.3e "
                                "relative (|Rs| = %.0e |H W|; 50-digit reference; tolerance %.1e)" % (
                                    n, m, np.max(np.abs(got - want)) / sc, case["r"], tol / sc), **case)

        cells.append(Cell("correct/accurate_n%d_m%d" % (n, m), acc_case(), check_acc, lambda c: c["r"] <= 1e-3,
                          lambda c: ["r=%.0e" % c["r"]], quick=80, thorough=1500, build=lambda n=n, m=m: correct_fn(n, m).build()))

    # ---- measurement noise factors that are dense and strongly anisotropic (a rotated diag(s, s, 1e6 s), the shape of the
    #      estimator's magnetometer factor): the gain must stay accurate (oracle: 60-digit arithmetic)
    def dense_correct_fn(n, m):
        k = ("corr_dense", n, m)
        if k not in _fn:
            def mk():
                W = ca.SX.sym("W", ca.Sparsity.lower(n))
                H = ca.SX.sym("H", m, n)
                Rs = ca.SX.sym("Rs", m, m)
                Wp, K, Ss = util().sqrt_correct(Rs, H, W)
                return [Rs, H, W], [ca.densify(Wp), ca.densify(K), ca.densify(Ss)]

            _fn[k] = cy.Fn("sqrt_correct_dense_%d_%d" % (n, m), mk)
        return _fn[k]

    for n, m in ((4, 2), (6, 3)):
        @st.composite
        def aniso_case(draw, n=n, m=m):
            return {"W": draw(lower_tri(n, 0.3, 3.0)), "H": draw(dense(m, n, scales=(0,))), "Q": draw(dense(m, m, scales=(0,))),
                    "kappa": 10.0 ** draw(st.sampled_from([0, 2, 4, 5, 6])), "sigma": 10.0 ** draw(st.sampled_from([-3, -2, 0]))}

        def check_aniso(case, n=n, m=m):
            W, H = np.array(case["W"], float), np.array(case["H"], float)
            A = np.array(case["Q"], float)
            require(abs(np.linalg.det(A)) > 1e-3 and 1 <= case["kappa"] <= 1e7 and 1e-4 <= case["sigma"] <= 10)
            Qo, _ = np.linalg.qr(A)
            d = np.ones(m)
            d[-1] = case["kappa"]
            Rs = Qo @ np.diag(d) * case["sigma"]
            require(float(np.linalg.cond((H @ W) @ (H @ W).T)) < 1e6)
            f = dense_correct_fn(n, m).build()
            spL = ca.Sparsity.lower(n)
            Wdm = ca.DM(spL, [float(W[r_, c_]) for r_, c_ in zip(*spL.get_triplet())])
            Wp, K, Ss = [np.array(o, float) for o in f.call([ca.DM(Rs), ca.DM(H), Wdm])]
            if not (np.all(np.isfinite(Wp)) and np.all(np.isfinite(K)) and np.all(np.isfinite(Ss))):
                raise Violation("sqrt_correct(n=%d,m=%d): non-finite result with an anisotropic noise factor (ratio %.0e)" % (n, m, case["kappa"]), **case)
            mp.mp.dps = 60
            mW, mH, mR = mp.matrix(W.tolist()), mp.matrix(H.tolist()), mp.matrix(Rs.tolist())
            mP = mW * mW.T
            mS = mH * mP * mH.T + mR * mR.T
            Kr = np.array((mP * mH.T * mp.inverse(mS)).tolist(), dtype=float)
            sc = float(np.max(np.abs(Kr)))
            err = float(np.max(np.abs(K - Kr)))
            if err > 1e-9 * sc + 1e-300:
                raise Violation("sqrt_correct(n=%d,m=%d): Kalman gain off by %.3e relative with a dense noise factor whose channels differ by "
                                "%.0e (60-digit reference; the unchanged tree is accurate to 1e-14 here)" % (n, m, err / sc, case["kappa"]), **case)

        cells.append(Cell("correct/anisotropic_n%d_m%d" % (n, m), aniso_case(), check_aniso, lambda c: c["kappa"] >= 1e4,
                          lambda c: ["kappa=%.0e" % c["kappa"]], quick=60, thorough=1000, build=lambda n=n, m=m: dense_correct_fn(n, m).build()))

    # ---- call histories of sqrt_covariance_predict in one process: the derivation is redone for every call, so a call
    #      must not depend on the sparsity patterns of earlier calls with the same dimension (module state reset per case)
    PATS = ("dense", "diagQ", "sparseF", "diagF_diagQ", "bandW")

    @st.composite
    def hist_case(draw):
        n = draw(st.integers(2, 5))
        calls = []
        for _ in range(draw(st.integers(2, 3))):
            calls.append({"pat": draw(st.sampled_from(PATS)), "W": draw(lower_tri(n)), "F": draw(dense(n, n, scales=(0,))), "Q": draw(psd(n))})
        return {"n": n, "calls": calls}

    def check_hist(case):
        import importlib
        n = case["n"]
        require(2 <= n <= 6)
        u = importlib.reload(util())
        for ci, c in enumerate(case["calls"]):
            W, F, Q = (np.array(c[k], float) for k in ("W", "F", "Q"))
            pat = c["pat"]
            mW = np.tril(np.ones((n, n)))
            mF = np.ones((n, n))
            mQ = np.ones((n, n))
            if pat in ("diagQ", "diagF_diagQ"):
                mQ = np.eye(n)
            if pat == "sparseF":
                mF = np.triu(np.ones((n, n)), 1) + np.eye(n)
                mF[n - 1, 0] = 1
            if pat == "diagF_diagQ":
                mF = np.eye(n)
            if pat == "bandW":
                mW = np.tril(np.ones((n, n))) - np.tril(np.ones((n, n)), -2)
            W, F, Q = W * mW, F * mF, (Q + Q.T) / 2 * mQ
            require(abs(np.linalg.det(W)) > 1e-6)

            def sym(nm, mask):
                r, cc = np.nonzero(mask)
                return ca.SX.sym(nm, ca.Sparsity.triplet(n, n, [int(i) for i in r], [int(j) for j in cc]))

            sW, sF, sQ = sym("W", mW), sym("F", mF), sym("Q", mQ)
            with cy.quiet():
                out = u.sqrt_covariance_predict(sW, sF, sQ)
                f = ca.Function("f", [sW, sF, sQ], [ca.densify(out)])

            def dm(M, sx):
                return ca.DM(sx.sparsity(), [float(M[i, j]) for (i, j) in zip(*sx.sparsity().get_triplet())][:sx.nnz()])

            # nonzeros in casadi (column-major) order
            def dmv(M, sx):
                sp = sx.sparsity()
                rows, cols = sp.get_triplet()
                return ca.DM(sp, [float(M[r_, c_]) for r_, c_ in zip(rows, cols)])

            Wd = np.array(f(dmv(W, sW), dmv(F, sF), dmv(Q, sQ)), float)
            if not np.all(np.isfinite(Wd)):
                raise Violation("sqrt_covariance_predict call %d (%s, n=%d) of a history: non-finite W'" % (ci, pat, n), **case)
            P = W @ W.T
            cond = float(np.linalg.cond(W))
            sc = (1 + np.max(np.abs(F))) * (1 + np.max(np.abs(P))) + np.max(np.abs(Q)) + float(np.max(np.abs(Wd)))
            tri_check(Wd, "sqrt_covariance_predict call %d (%s, n=%d) of a history: W'" % (ci, pat, n), 1e-11 * sc * cond, **case)
            L.close(Wd @ W.T + W @ Wd.T, F @ P + P @ F.T + Q,
                    "sqrt_covariance_predict call %d (%s, n=%d) after %s: W'W^T + W W'^T vs F P + P F^T + Q" % (
                        ci, pat, n, [x["pat"] for x in case["calls"][:ci]]), atol=1e-10 * sc * cond, rtol=0, **case)

    cells.append(Cell("predict/history", hist_case(), check_hist, lambda c: len({x["pat"] for x in c["calls"]}) > 1,
                      lambda c: ["first:" + c["calls"][0]["pat"]], quick=60, thorough=800))

    # ---- rk4: exact for fields that are cubic polynomials in time
    dy = st.integers(-64, 64).map(lambda k: k / 16.0)

    for d in (1, 2, 3):
        @st.composite
        def poly_case(draw, d=d):
            return {"t": draw(dy), "h": draw(st.integers(1, 64)) / 32.0 * draw(st.sampled_from([1.0, 1.0, -1.0])),
                    "y": [draw(dy) for _ in range(d)], "C": [[draw(dy) for _ in range(4)] for _ in range(d)]}

        def check_poly(case, d=d):
            t, h = Fraction(case["t"]), Fraction(case["h"])
            got = cy.vec(rk4_poly_fn(d)(case["t"], case["y"], case["h"], case["C"]))
            want = []
            for i in range(d):
                c = [Fraction(x) for x in case["C"][i]]
                prim = lambda s: sum(c[k] * s ** (k + 1) / (k + 1) for k in range(4))
                want.append(float(Fraction(case["y"][i]) + prim(t + h) - prim(t)))
            sc = 1 + max(abs(float(x)) for row in case["C"] for x in row) * (1 + abs(float(t)) + abs(float(h))) ** 4
            L.close(got, np.array(want), "rk4 on a field cubic in t (dim %d) vs exact integral" % d, atol=1e-13 * sc, rtol=1e-13, **case)

        cells.append(Cell("rk4/cubic_d%d" % d, poly_case(), check_poly,
                          lambda c: any(abs(x) > 0 for row in c["C"] for x in row[1:]), lambda c, d=d: ["d=%d" % d],
                          quick=150, thorough=3000, build=lambda d=d: rk4_poly_fn(d).build()))

        @st.composite
        def lin_case(draw, d=d):
            return {"t": draw(dy), "h": 10.0 ** draw(gens.fl(-3.0, 0.0)), "y": draw(gens.vector(d, scales=(0, 0, 1), allow_zero=False)),
                    "A": draw(dense(d, d, scales=(-1, 0, 0, 1)))}

        def check_lin(case, d=d):
            A = np.array(case["A"], float)
            y = np.array(case["y"], float)
            h = case["h"]
            got = cy.vec(rk4_lin_fn(d)(case["t"], y, h, A))
            Z = A * h
            T4 = np.eye(d) + Z + Z @ Z / 2 + Z @ Z @ Z / 6 + Z @ Z @ Z @ Z / 24
            z = float(np.linalg.norm(Z, 2))
            ny = float(np.max(np.abs(y))) * math.sqrt(d)
            sc = ny * (1 + z) ** 4
            L.close(got, T4 @ y, "rk4 on y' = A y vs the degree-4 Taylor polynomial of exp(A h) (any 4-stage 4th-order method)",
                    atol=1e-13 * sc + 1e-250, rtol=0, **case)
            if z <= 0.5:
                err = float(np.linalg.norm(got - ref.expm(Z) @ y))
                if err > (z**5 / 100.0 + 1e-13) * max(ny, 1e-300) * 2:
                    raise Violation("rk4 on y' = A y: one-step error %.3e exceeds (|A|h)^5/50 |y|" % err, **case)

        cells.append(Cell("rk4/linear_d%d" % d, lin_case(), check_lin, lambda c: True, lambda c, d=d: ["d=%d" % d],
                          quick=150, thorough=3000, build=lambda d=d: rk4_lin_fn(d).build()))

    @st.composite
    def nl_case(draw):
        return {"t": draw(gens.fl(-2.0, 2.0)), "y": [draw(gens.fl(-2.0, 2.0)), draw(gens.fl(-2.0, 2.0))],
                "h": draw(gens.fl(0.02, 0.1))}

    def nl_ref(t, y, h, sub=64):
        # reference by many small classical steps written in the harness (error ~ (h/sub)^4, negligible)
        f = lambda tt, yy: np.array([yy[1] + math.sin(tt), -math.sin(yy[0]) - 0.1 * yy[1] * yy[0] + math.cos(2 * tt)])
        hh = h / sub
        for i in range(sub):
            k1 = f(t, y); k2 = f(t + hh / 2, y + hh / 2 * k1); k3 = f(t + hh / 2, y + hh / 2 * k2); k4 = f(t + hh, y + hh * k3)
            y = y + hh / 6 * (k1 + 2 * k2 + 2 * k3 + k4)
            t += hh
        return y

    OFFS = [(0, 0, 0), (0.3, 0.2, -0.1), (-0.4, 0.1, 0.3), (0.1, -0.35, 0.2), (0.25, 0.3, 0.15)]

    def check_nl(case):
        t, y, h = case["t"], np.array(case["y"], float), case["h"]
        ratios, errs = [], []
        for d in OFFS:
            tt, yy = t + d[0], y + np.array(d[1:])
            e1 = float(np.linalg.norm(cy.vec(rk4_nl_fn()(tt, yy, h)) - nl_ref(tt, yy, h)))
            e2 = float(np.linalg.norm(cy.vec(rk4_nl_fn()(tt, yy, h / 2)) - nl_ref(tt, yy, h / 2)))
            errs.append(e1)
            if e2 > 1e-13:
                ratios.append(e1 / e2)
        require(len(ratios) >= 3)
        ratio = float(np.median(ratios))
        # local error of a fourth-order method is O(h^5): halving h divides it by 32 (a third-order method: 16)
        if not (21.0 <= ratio <= 48.0):
            raise Violation("rk4 on a nonlinear field: median local error ratio e(h)/e(h/2) = %.2f over 5 states, expected "
                            "about 32 (fourth-order method)" % ratio, ratios=ratios, **case)
        if max(errs) > 5.0 * h**5:
            raise Violation("rk4 on a nonlinear field: local error %.3e > 5 h^5" % max(errs), **case)

    cells.append(Cell("rk4/nonlinear_order", nl_case(), check_nl, lambda c: True, None, quick=150, thorough=3000,
                      build=lambda: rk4_nl_fn().build()))
    return cells


def build(tier):
    return {
        "cells": make_cells(tier),
        "rule": RULE,
        "assumptions": [
            "n = 1 is outside the generated domain for sqrt_covariance_predict (the code rejects it: there is no upper "
            "triangle to solve for)",
            "R = Rs Rs^T (Rs is the lower-triangular factor passed by the caller); tolerances scale with cond(W), cond(S)",
            "rk4: exactness for cubic-in-t fields is decided with exact rational arithmetic on dyadic inputs; for y' = A y "
            "every 4-stage fourth-order Runge-Kutta method reproduces the degree-4 Taylor polynomial of exp(Ah); the "
            "observed local order on a nonlinear field must be 5 (median error ratio over 5 states within [21, 48]; measured range on the unchanged tree over 2000 draws: [26.5, 38.0])",
        ],
        "matchers": {},
    }
