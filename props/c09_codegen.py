"""C09 — generated C code computes the same functions as the symbolic models."""
from __future__ import annotations

import atexit
import contextlib
import io
import itertools
import json
import math
import os
import re
import runpy
import shutil
import subprocess
import sys
import tempfile
from concurrent.futures import ThreadPoolExecutor

import numpy as np
from hypothesis import strategies as st

from vlib import cy, gens
from vlib.harness import Cell, Violation, require, VERIF

ca = cy.ca
RULE = (
    "Programs: (equation set x option vector) for the six shipped sets — estimator 'mrp' and 'sim' through "
    "algorithms.generate_code, rdd2 / rdd2_loglinear / bezier exactly as assembled by their __main__ blocks (run with "
    "runpy) and through their generate_code with option vectors, reference trajectory through cyecca.codegen.generate_code. "
    "Option vectors: every accepted key, boolean values: defaults, every single flip, every pair of flips (quick); all "
    "2^k combinations on the two smallest sets (thorough). For the default vector of every set the C file is compiled "
    "(gcc -Wall -Werror -O1 -ffp-contract=off), loaded with casadi.external and executed differentially against the "
    "symbolic Function on generated inputs: N(0,1)*10^k, exact 0, +-1, and every constant harvested from the function's "
    "instruction list +- 1 ulp and x(1+-1e-6) (to straddle branches); NaN-aware comparison. Non-trivial input: at least "
    "one comparison node of the function's SX graph evaluates differently from the all-zeros input (or the function has "
    "no comparison and the input is non-zero); programs = (set, option vector) pairs generated."
)
BOOL_KEYS_GENERIC = ["verbose", "mex", "cpp", "main", "with_header", "with_mem", "with_export", "with_import", "include_math", "avoid_stack"]
BOOL_KEYS_EST = ["main", "mex", "with_header", "with_mem"]
COMPILE_VARIANT_KEYS = ["main", "with_header", "with_mem", "avoid_stack", "verbose"]
EXPORT_RE = re.compile(r"\bint (\w+)\(const casadi_real\*\* arg, casadi_real\*\* res, casadi_int\* iw, casadi_real\* w, int mem\)")
EXPECTED = os.path.join(VERIF, "props", "c09_expected_names.json")

S = {"tmp": None, "sets": {}, "gen": {}, "so": {}, "compile": {}, "setup_error": None}


def quiet_call(fn, *a, **k):
    # stdout is silenced once around the whole setup (redirect_stdout is not thread-safe)
    return fn(*a, **k)


def load_sets():
    """name -> dict(functions=[Function...], generate=callable(dest, **opts) -> list of C files, keys=[...], defaults={...})"""
    os.environ.setdefault("MPLBACKEND", "Agg")
    sets = {}
    with cy.quiet():
        from cyecca.estimate.attitude import algorithms
        import cyecca.codegen as codegen
        import cyecca.models.mr_ref_traj as mr

    est = quiet_call(algorithms.eqs)
    for nm in ("mrp", "sim"):
        def gen(dest, nm=nm, **opts):
            # exactly as shipped: one call with the whole dictionary of equation sets writes one file per set
            marker = os.path.join(dest, ".estimator_generated")
            if not os.path.exists(marker):
                quiet_call(algorithms.generate_code, est, dest, **opts)
                open(marker, "w").close()
            return [os.path.join(dest, "casadi_%s.c" % nm)]

        sets["estimator_" + nm] = {"functions": list(est[nm].values()), "generate": gen, "keys": BOOL_KEYS_EST,
                                   "defaults": {"main": False, "mex": False, "with_header": True, "with_mem": True},
                                   "shared_dest": "estimator"}

    def main_set(modname, cfile):
        tmp = tempfile.mkdtemp(prefix="c09main_", dir=S["tmp"])
        argv = sys.argv
        try:
            sys.argv = [modname, tmp]
            g = runpy.run_module(modname, run_name="__main__")
        finally:
            sys.argv = argv
        if not os.path.exists(os.path.join(tmp, cfile)):
            raise RuntimeError("%s __main__ did not write %s" % (modname, cfile))
        eqs = g["eqs"]
        gc = g["generate_code"]

        def gen(dest, **opts):
            quiet_call(gc, eqs, filename=cfile, dest_dir=dest, **opts)
            return [os.path.join(dest, cfile)]

        return {"functions": list(eqs.values()), "generate": gen, "keys": BOOL_KEYS_GENERIC,
                "defaults": {"verbose": True, "mex": False, "cpp": False, "main": False, "with_header": True, "with_mem": False,
                             "with_export": False, "with_import": False, "include_math": True, "avoid_stack": True},
                "main_file": os.path.join(tmp, cfile)}

    sets["rdd2"] = main_set("cyecca.models.rdd2", "rdd2.c")
    sets["rdd2_loglinear"] = main_set("cyecca.models.rdd2_loglinear", "rdd2_loglinear.c")
    sets["bezier"] = main_set("cyecca.models.bezier", "bezier.c")
    ref_eqs = {"mr_ref_traj": quiet_call(mr.derive_mr_ref_traj)}

    def gen_ref(dest, **opts):
        quiet_call(codegen.generate_code, ref_eqs, dest, **opts)
        return [os.path.join(dest, "mr_ref_traj.c")]

    sets["reference_trajectory"] = {"functions": list(ref_eqs["mr_ref_traj"].values()), "generate": gen_ref, "keys": BOOL_KEYS_GENERIC,
                                    "defaults": dict(sets["rdd2"]["defaults"])}
    return sets


def option_vectors(keys, defaults, tier, small):
    vecs = [dict(defaults)]
    for k in keys:
        v = dict(defaults)
        v[k] = not v[k]
        vecs.append(v)
    for a, b in itertools.combinations(keys, 2):
        v = dict(defaults)
        v[a], v[b] = not v[a], not v[b]
        vecs.append(v)
    if tier == "thorough" and small:
        vecs = [dict(zip(keys, bits)) for bits in itertools.product([False, True], repeat=len(keys))]
    return vecs


def optname(v, defaults):
    d = [("%s=%d" % (k, int(v[k]))) for k in sorted(v) if v[k] != defaults[k]]
    return ",".join(d) if d else "defaults"


def exported_names(csrc):
    names = EXPORT_RE.findall(csrc)
    return [n for n in names if not re.fullmatch(r"casadi_f\d+", n)]


def do_generate(setname, info, v, idx):
    if "shared_dest" in info and not str(idx).startswith("again_"):
        # sets written by one call share a directory that is named after the option vector (not the enumeration index)
        idx = "opt_" + "".join("%d" % int(v[k]) for k in sorted(v))
    dest = os.path.join(S["tmp"], "%s_%s" % (info.get("shared_dest", setname), idx))
    os.makedirs(dest, exist_ok=True)
    try:
        files = info["generate"](dest, **v)
    except Exception as e:
        return {"ok": False, "error": "%s: %s" % (type(e).__name__, str(e)[:400])}
    out = {"ok": True, "files": files, "names": [], "dest": dest}
    for fpath in files:
        alt = fpath[:-2] + ".cpp" if not os.path.exists(fpath) and os.path.exists(fpath[:-2] + ".cpp") else fpath
        if not os.path.exists(alt):
            return {"ok": False, "error": "generator returned but %s was not written" % os.path.basename(fpath)}
        src = open(alt).read()
        out["names"] += exported_names(src)
        out["src_bytes"] = len(src)
    return out


def do_compile(cfile):
    so = cfile[:-2] + ".so"
    inc = os.path.join(os.path.dirname(ca.__file__), "include")  # with_mem code includes <casadi/mem.h>, shipped with casadi
    r = subprocess.run(["gcc", "-Wall", "-Werror", "-O1", "-fPIC", "-shared", "-ffp-contract=off", "-I", inc, cfile, "-o", so, "-lm"],
                       capture_output=True, text=True)
    return {"rc": r.returncode, "stderr": r.stderr[-1500:], "so": so}


def setup(tier):
    if S["tmp"] is not None:
        return
    with cy.quiet():
        _setup(tier)


def _setup(tier):
    S["tmp"] = tempfile.mkdtemp(prefix="c09_")
    atexit.register(lambda: shutil.rmtree(S["tmp"], ignore_errors=True))
    try:
        S["sets"] = load_sets()
    except Exception as e:
        import traceback

        S["setup_error"] = "loading the shipped equation sets failed: %s: %s\n%s" % (type(e).__name__, e, traceback.format_exc()[-1500:])
        return
    sizes = {k: sum(f.n_instructions() for f in v["functions"]) for k, v in S["sets"].items()}
    small = set(sorted(sizes, key=sizes.get)[:2])
    jobs = []
    for sname, info in S["sets"].items():
        for i, v in enumerate(option_vectors(info["keys"], info["defaults"], tier, sname in small)):
            jobs.append((sname, info, v, i))
    res = [do_generate(*j) for j in jobs]
    for (sname, info, v, i), r in zip(jobs, res):
        S["gen"][(sname, optname(v, info["defaults"]))] = (v, r)
    # history independence: the generated text must be a function of (equation set, options) only
    S["regen"] = {}
    for sname, info in S["sets"].items():
        names_ = [o for (a, o) in S["gen"] if a == sname]
        picks = ["defaults"] + [o for o in names_ if o != "defaults"][-2:]
        for o in picks:
            v, r = S["gen"][(sname, o)]
            if not r["ok"]:
                continue
            r2 = do_generate(sname, info, v, "again_" + re.sub(r"[^a-z0-9_=]", "_", o))
            same = None
            if r2["ok"]:
                f1, f2 = r["files"][0], r2["files"][0]
                a1 = f1 if os.path.exists(f1) else f1[:-2] + ".cpp"
                a2 = f2 if os.path.exists(f2) else f2[:-2] + ".cpp"
                same = open(a1).read() == open(a2).read()
                h1, h2 = f1[:-2] + ".h", f2[:-2] + ".h"
                if os.path.exists(h1) != os.path.exists(h2):
                    same = False
            S["regen"][(sname, o)] = (r2, same)
    # compile the default vector of every set (and the files written by the __main__ blocks)
    cjobs = []
    for sname, info in S["sets"].items():
        v, r = S["gen"][(sname, "defaults")]
        if r["ok"]:
            cjobs.append((sname, r["files"][0]))
    # ... and the single-option variants whose C output is meant to be self-contained (a main driver, header, memory
    # interface, stack avoidance, verbosity): they are accepted options, so their output must build as well
    vjobs = []
    for sname, info in S["sets"].items():
        for k in COMPILE_VARIANT_KEYS:
            if k not in info["keys"]:
                continue
            v = dict(info["defaults"])
            v[k] = not v[k]
            o = optname(v, info["defaults"])
            if (sname, o) in S["gen"] and S["gen"][(sname, o)][1]["ok"]:
                f = S["gen"][(sname, o)][1]["files"][0]
                if os.path.exists(f):
                    vjobs.append(((sname, o), f))
    with ThreadPoolExecutor(8) as ex:
        cres = list(ex.map(lambda j: do_compile(j[1]), cjobs))
        vres = list(ex.map(lambda j: do_compile(j[1]), vjobs))
    for (sname, f), r in zip(cjobs, cres):
        S["compile"][sname] = r
    S["compile_variants"] = {k: r for (k, f), r in zip(vjobs, vres)}


def harvest_constants(f):
    vals = set()
    try:
        for k in range(f.n_instructions()):
            if f.instruction_id(k) == ca.OP_CONST:
                c = float(f.instruction_constant(k))
                if math.isfinite(c) and c != 0:
                    vals.add(c)
    except Exception:
        pass
    return sorted(vals)[:60]


def comparison_signature_fn(f):
    """Function returning the values of all comparison nodes of f's SX graph (None if there are none)."""
    try:
        ins = f.sx_in()
        outs = f.call(ins)
        seen, conds = set(), []
        stack = []
        for o in outs:
            for e in ca.vec(o).nonzeros() if hasattr(ca.vec(o), "nonzeros") else []:
                stack.append(e)
        n = 0
        while stack and n < 200000:
            e = stack.pop()
            h = e.__hash__()
            if h in seen:
                continue
            seen.add(h)
            n += 1
            if e.is_leaf():
                continue
            if e.op() in (ca.OP_LT, ca.OP_LE, ca.OP_EQ, ca.OP_NE):
                conds.append(e)
            for i in range(e.n_dep()):
                stack.append(e.dep(i))
        if not conds:
            return None
        return ca.Function("sig", ins, [ca.vertcat(*conds[:400])])
    except Exception:
        return None


def make_cells(tier):
    setup(tier)
    cells = []
    if S["setup_error"]:
        def bad(case):
            raise Violation(S["setup_error"])

        return [Cell("setup", st.just({"setup": 1}), bad, quick=1, thorough=1, shrink=False)]
    expected = json.load(open(EXPECTED)) if os.path.exists(EXPECTED) else {}

    # ---- generation + symbol set under option vectors
    for (sname, oname), (v, r) in sorted(S["gen"].items()):
        info = S["sets"][sname]
        want = sorted(f.name() for f in info["functions"])

        def check_gen(case, sname=sname, oname=oname, v=v, r=r, want=want):
            if not r["ok"]:
                raise Violation("generate_code for set %s with options {%s} failed: %s" % (sname, oname, r["error"]), options=v)
            got = sorted(r["names"])
            if got != want:
                missing = sorted(set(want) - set(got))
                extra = sorted(set(got) - set(want))
                dup = sorted({n for n in got if got.count(n) > 1})
                raise Violation("set %s, options {%s}: exported C functions differ from the equation set: missing %s, unexpected %s, "
                                "duplicated %s" % (sname, oname, missing, extra, dup), options=v)
            exp = expected.get(sname)
            if exp is not None and sorted(exp) != want:
                raise Violation("set %s no longer ships the functions of the pinned tree: missing %s, new %s" % (
                    sname, sorted(set(exp) - set(want)), sorted(set(want) - set(exp))), options=v)
            if v.get("with_header", False):
                h = r["files"][0][:-2] + ".h"
                if not os.path.exists(h):
                    raise Violation("set %s, options {%s}: with_header is set but no header was written" % (sname, oname), options=v)
                hs = open(h).read()
                miss = [n for n in want if not re.search(r"\b%s\(" % re.escape(n), hs)]
                if miss:
                    raise Violation("set %s, options {%s}: header does not declare %s" % (sname, oname, miss), options=v)

        cells.append(Cell("gen/%s/%s" % (sname, oname), st.just({"set": sname, "options": oname}), check_gen,
                          lambda c: True, lambda c: ["set:" + c["set"]], quick=1, thorough=1, shrink=False))

    # ---- __main__ blocks write the same function set as their generate_code
    for sname, info in S["sets"].items():
        if "main_file" in info:
            def check_main(case, sname=sname, info=info):
                got = sorted(exported_names(open(info["main_file"]).read()))
                want = sorted(f.name() for f in info["functions"])
                if got != want:
                    raise Violation("file written by the __main__ block of %s exports %s, equation set has %s" % (sname, got, want))

            cells.append(Cell("main_block/%s" % sname, st.just({"set": sname}), check_main, lambda c: True, None, quick=1, thorough=1, shrink=False))

    # ---- generated output does not depend on earlier generate_code calls
    for (sname, oname), (r2, same) in sorted(S["regen"].items()):
        def check_regen(case, sname=sname, oname=oname, r2=r2, same=same):
            if not r2["ok"]:
                raise Violation("generate_code for set %s with options {%s} succeeded at first but failed when repeated after other "
                                "calls: %s" % (sname, oname, r2["error"]))
            if not same:
                raise Violation("generate_code for set %s with options {%s} wrote different C text when repeated after calls with "
                                "other options (output depends on the call history, not only on its arguments)" % (sname, oname))

        cells.append(Cell("history/%s/%s" % (sname, oname), st.just({"set": sname, "options": oname}), check_regen,
                          lambda c: True, None, quick=1, thorough=1, shrink=False))

    # ---- compile cleanly (default vector)
    for sname, info in S["sets"].items():
        def check_compile(case, sname=sname):
            v, r = S["gen"][(sname, "defaults")]
            if not r["ok"]:
                return  # already reported by the gen cell of the default option vector
            c = S["compile"].get(sname)
            if c is None or c["rc"] != 0 or c["stderr"].strip():
                raise Violation("generated C for set %s (default options) does not compile cleanly with gcc -Wall -Werror: rc=%s\n%s" % (
                    sname, None if c is None else c["rc"], "" if c is None else c["stderr"][-800:]))

        cells.append(Cell("compile/%s" % sname, st.just({"set": sname}), check_compile, lambda c: True, None, quick=1, thorough=1, shrink=False))

    for (sname, o), c in sorted(S.get("compile_variants", {}).items()):
        def check_compile_v(case, sname=sname, o=o, c=c):
            if c["rc"] != 0 or c["stderr"].strip():
                raise Violation("generated C for set %s with option %s does not compile cleanly with gcc -Wall -Werror: rc=%s\n%s" % (
                    sname, o, c["rc"], c["stderr"][-800:]))

        cells.append(Cell("compile/%s/%s" % (sname, o), st.just({"set": sname, "options": o}), check_compile_v, lambda c: True, None,
                          quick=1, thorough=1, shrink=False))

    # ---- layout + differential execution per function
    for sname, info in S["sets"].items():
        c = S["compile"].get(sname)
        if c is None or c["rc"] != 0:
            continue
        for f in info["functions"]:
            fname = f.name()
            consts = harvest_constants(f)
            st_case = input_strategy(f, consts)
            state = {}

            def check_diff(case, f=f, fname=fname, so=c["so"], state=state, sname=sname):
                if "ext" not in state:
                    try:
                        state["ext"] = ca.external(fname, so)
                    except Exception as e:
                        raise Violation("compiled library of set %s does not provide a loadable function %s: %s" % (sname, fname, str(e)[:200]))
                    state["sig"] = comparison_signature_fn(f)
                ext = state["ext"]
                if (ext.n_in(), ext.n_out()) != (f.n_in(), f.n_out()):
                    raise Violation("%s: C function has %d inputs / %d outputs, symbolic function %d / %d" % (fname, ext.n_in(), ext.n_out(), f.n_in(), f.n_out()))
                for i in range(f.n_in()):
                    if ext.name_in(i) != f.name_in(i) or ext.sparsity_in(i) != f.sparsity_in(i):
                        raise Violation("%s: argument %d layout differs (C: %s %s, symbolic: %s %s)" % (
                            fname, i, ext.name_in(i), ext.sparsity_in(i).dim(), f.name_in(i), f.sparsity_in(i).dim()))
                for i in range(f.n_out()):
                    if ext.name_out(i) != f.name_out(i) or ext.sparsity_out(i) != f.sparsity_out(i):
                        raise Violation("%s: result %d layout differs (C: %s %s, symbolic: %s %s)" % (
                            fname, i, ext.name_out(i), ext.sparsity_out(i).dim(), f.name_out(i), f.sparsity_out(i).dim()))
                args = [ca.DM(f.sparsity_in(i), np.array(a, float)) for i, a in enumerate(case["args"])]
                r1 = f.call(args)
                r2 = ext.call(args)
                for i, (a, b) in enumerate(zip(r1, r2)):
                    a, b = np.array(a.nonzeros(), float), np.array(b.nonzeros(), float)
                    if a.shape != b.shape:
                        raise Violation("%s: result %d has %d non-zeros in C, %d symbolically" % (fname, i, b.size, a.size))
                    with np.errstate(all="ignore"):
                        diff_ok = np.abs(a - b) <= 1e-12 * (1 + np.abs(a))
                    both_nan = np.isnan(a) & np.isnan(b)
                    same_inf = np.isinf(a) & np.isinf(b) & (np.sign(a) == np.sign(b))
                    ok = both_nan | same_inf | diff_ok
                    if not np.all(ok):
                        k = int(np.argmin(ok))
                        raise Violation("%s: compiled C and symbolic function disagree on result %d (%s), element %d: C %.17g, symbolic %.17g" % (
                            fname, i, f.name_out(i), k, b[k], a[k]), args=case["args"])

            def nontrivial(case, f=f, state=state):
                args = [ca.DM(f.sparsity_in(i), np.array(a, float)) for i, a in enumerate(case["args"])]
                if "sig" not in state:
                    state["sig"] = comparison_signature_fn(f)
                if state["sig"] is None:
                    return any(any(x != 0 for x in a) for a in case["args"])
                if "sig0" not in state:
                    state["sig0"] = np.array(state["sig"].call([ca.DM(f.sparsity_in(i), np.zeros(f.nnz_in(i))) for i in range(f.n_in())])[0])
                s1 = np.array(state["sig"].call(args)[0])
                return not np.array_equal(np.nan_to_num(s1, nan=-1), np.nan_to_num(state["sig0"], nan=-1))

            cells.append(Cell("diff/%s/%s" % (sname, fname), st_case, check_diff, nontrivial, None, quick=120, thorough=3000))
    return cells


def input_strategy(f, consts):
    pool = []
    for c in consts:
        pool += [c, np.nextafter(c, np.inf), np.nextafter(c, -np.inf), c * (1 + 1e-6), c * (1 - 1e-6), -c]
    elem_choices = [st.sampled_from([0.0, 1.0, -1.0, 0.5, 2.0]),
                    st.tuples(gens.fl(-1.0, 1.0), st.sampled_from([-3, -1, 0, 0, 1, 2])).map(lambda t: t[0] * 10.0 ** t[1])]
    if pool:
        elem_choices.append(st.sampled_from(pool))
    elem = st.one_of(elem_choices)

    @st.composite
    def case(draw):
        args = []
        for i in range(f.n_in()):
            n = f.nnz_in(i)
            nm = f.name_in(i)
            mode = draw(st.integers(0, 5))
            if mode == 0:
                a = [0.0] * n
            else:
                a = [draw(elem) for _ in range(n)]
            # keep step sizes / scale-like inputs in a plausible positive range half of the time
            if n == 1 and nm in ("dt", "T", "g", "m", "F_max", "l", "Cm", "Ct", "f_cut") and draw(st.booleans()):
                a = [abs(a[0]) + 1e-3]
            if n == 4 and "q" in nm and draw(st.booleans()):
                v = np.array(a, float)
                nv = float(np.linalg.norm(v))
                a = list(v / nv) if nv > 1e-6 else [1.0, 0.0, 0.0, 0.0]
            args.append(a)
        return {"args": args}

    return case()


def build(tier):
    cells = make_cells(tier)
    nprog = len(S["gen"])

    def extra():
        return {"programs": nprog, "equation_sets": sorted(S["sets"]), "compiled_sets": sorted(k for k, v in S["compile"].items() if v["rc"] == 0),
                "option_vectors_per_set": {s: sum(1 for (a, b) in S["gen"] if a == s) for s in S["sets"]}}

    return {
        "cells": cells,
        "rule": RULE,
        "assumptions": [
            "the reference for compiled C is the CasADi virtual machine evaluating the same Function (NaN == NaN, same-signed "
            "infinities equal, otherwise relative 1e-12); equality is established by differential execution on generated inputs "
            "only, not by structural matching of the C text against the instruction list",
            "'compiles cleanly' is asserted (gcc -Wall -Werror, empty stderr) for the option vector each entry point ships as its "
            "default; for other option vectors the check asserts successful generation and a complete, duplicate-free set of "
            "exported functions (parsed from the C text), and a header declaring them when with_header is set",
            "props/c09_expected_names.json pins the function names each set shipped on the pinned tree (a dropped or renamed "
            "export is reported even if the equation set and the C file agree with each other)",
        ],
        "extra_coverage": extra,
        "matchers": {},
    }
