"""C13 — control allocation yields reachable motor commands and honours feasible demands."""
from __future__ import annotations

import math

import numpy as np
from hypothesis import strategies as st

from vlib import cy, gens, ref
from vlib.harness import Cell, Violation, require
from props import common_lie as L

ca = cy.ca
RULE = (
    "Cases: F_max in 10^[-1,3], l in 10^[-2,1], Cm in 10^[-3,0], Ct in 10^[-8,-3]; thrust demand T from {negative, "
    "[0, 4 F_max], up to 40 F_max}; moment demand per axis = authority (l F_max, l F_max, Cm F_max) x u with u from {0, "
    "tiny, [-1,1], [-4,4], +-1e3}; plus constructed boundary cases on dyadic numbers where the thrust headroom is exactly "
    "0 on one or both sides, M = 0, T = 0 and T = 4 F_max. Oracle: forward geometry G (inverse of the shipped mixer "
    "signs) applied to the returned motor forces, against the range-limited demand and the least-shift thrust. "
    "Non-trivial: M != 0; classes {joint-feasible, moment-only, moment-infeasible} x sign(C1) x sign(C2) are histogrammed "
    "and every reachable class must be populated; distinct = hash of (cell, inputs rounded to 9 digits)."
)
SX_ = np.array([-1.0, 1.0, 1.0, -1.0])
SY_ = np.array([-1.0, 1.0, -1.0, 1.0])
SZ_ = np.array([-1.0, -1.0, 1.0, 1.0])

_f = {}


def alloc_fn():
    if "f" not in _f:
        def mk():
            import os
            os.environ.setdefault("MPLBACKEND", "Agg")
            import cyecca.models.rdd2 as rdd2

            f = rdd2.derive_control_allocation()["f_alloc"]
            ins = [ca.SX.sym("F_max"), ca.SX.sym("l"), ca.SX.sym("Cm"), ca.SX.sym("Ct"), ca.SX.sym("T"), ca.SX.sym("M", 3)]
            outs = f(*ins)
            return ins, [ca.densify(o) for o in outs]

        _f["f"] = cy.Fn("control_allocation", mk)
    return _f["f"]


def geometry(l, Cm):
    G = np.vstack([np.ones(4), l * SX_, l * SY_, Cm * SZ_])
    A = np.column_stack([np.ones(4) / 4, SX_ / (4 * l), SY_ / (4 * l), SZ_ / (4 * Cm)])
    return G, A


def oracle(case):
    Fm_, l, Cm, Ct, T, M = case["F_max"], case["l"], case["Cm"], case["Ct"], case["T"], np.array(case["M"], float)
    G, A = geometry(l, Cm)
    T_sat = min(max(T, 0.0), 4 * Fm_)
    M_max = l * 4 * Fm_ / 2
    M_sat = np.clip(M, -M_max, M_max)
    F_mom = A @ np.concatenate([[0.0], M_sat])
    F_thr = np.ones(4) * T_sat / 4
    F_des = F_mom + F_thr
    return dict(G=G, A=A, T_sat=T_sat, M_sat=M_sat, F_mom=F_mom, F_thr=F_thr, F_des=F_des,
                spread=float(F_mom.max() - F_mom.min()), C1=Fm_ - float(F_des.max()), C2=float(F_des.min()))


def classes(case):
    o = oracle(case)
    Fm_ = case["F_max"]
    eps = 1e-12 * Fm_
    if o["C1"] >= -eps and o["C2"] >= -eps:
        k = "joint"
    elif o["spread"] <= Fm_ * (1 + 1e-12):
        k = "moment-only"
    else:
        k = "infeasible"
    sg = lambda v: "0" if v == 0 else ("+" if v > 0 else "-")
    out = [k, "C1%s" % sg(o["C1"]), "C2%s" % sg(o["C2"]), "%s/C1%s/C2%s" % (k, sg(o["C1"]), sg(o["C2"]))]
    if case["T"] < 0:
        out.append("T<0")
    elif case["T"] > 4 * Fm_:
        out.append("T>4Fmax")
    return out


@st.composite
def gen_case(draw):
    F_max = 10.0 ** draw(gens.fl(-1.0, 3.0))
    l = 10.0 ** draw(gens.fl(-4.0, 1.0))  # "all positive constants": millimetre arms and very small / large moment coefficients too
    Cm = 10.0 ** draw(gens.fl(-5.0, 0.5))
    Ct = 10.0 ** draw(gens.fl(-8.0, -3.0))
    tm = draw(st.integers(0, 9))
    if tm == 0:
        T = -F_max * 10.0 ** draw(gens.fl(-3.0, 2.0))
    elif tm == 1:
        T = F_max * draw(gens.fl(4.0, 40.0))
    elif tm == 2:
        T = draw(st.sampled_from([0.0, 4.0 * F_max, 2.0 * F_max]))
    else:
        T = F_max * draw(gens.fl(0.0, 4.0))
    auth = [l * F_max, l * F_max, Cm * F_max]
    M = []
    for i in range(3):
        mm = draw(st.integers(0, 9))
        if mm == 0:
            u = 0.0
        elif mm == 1:
            u = draw(gens.fl(-1.0, 1.0)) * 1e-6
        elif mm == 2:
            u = draw(gens.fl(-1.0, 1.0)) * 1e3
        elif mm <= 5:
            u = draw(gens.fl(-4.0, 4.0))
        else:
            u = draw(gens.fl(-1.0, 1.0))
        M.append(u * auth[i])
    return {"F_max": F_max, "l": l, "Cm": Cm, "Ct": Ct, "T": T, "M": M}


@st.composite
def gen_boundary(draw):
    """Dyadic construction: motor forces for the moment are a * (cx sx + cy sy + cz sz) with small integer/half
    coefficients; the thrust is then placed exactly on a headroom boundary."""
    F_max = float(2 ** draw(st.integers(0, 6)))
    l = float(2.0 ** draw(st.integers(-12, 1)))
    Cm = float(2.0 ** draw(st.integers(-15, -1)))
    Cm = min(Cm, 2 * l)
    Ct = float(2.0 ** draw(st.integers(-20, -10)))
    cs = [draw(st.sampled_from([0.0, 0.5, -0.5, 1.0, -1.0, 0.25])) for _ in range(3)]
    pat = cs[0] * SX_ + cs[1] * SY_ + cs[2] * SZ_
    spread = float(pat.max() - pat.min())
    mode = draw(st.sampled_from(["both", "C1", "C2", "inside", "T0", "T4"]))
    if spread == 0:
        a = 0.0
    elif mode == "both":
        a = F_max / spread
    else:
        a = F_max / spread * draw(st.sampled_from([0.25, 0.5, 0.75]))
    Fm = a * pat
    M = [4 * l * a * cs[0], 4 * l * a * cs[1], 4 * Cm * a * cs[2]]
    if mode in ("both", "C2"):
        T = 4 * (-float(Fm.min()))
    elif mode == "C1":
        T = 4 * (F_max - float(Fm.max()))
    elif mode == "T0":
        T = 0.0
    elif mode == "T4":
        T = 4 * F_max
    else:
        T = 2 * (F_max - float(Fm.max()) - float(Fm.min()))
    return {"F_max": F_max, "l": l, "Cm": Cm, "Ct": Ct, "T": T, "M": M}


def check(case):
    Fm_, l, Cm, Ct = case["F_max"], case["l"], case["Cm"], case["Ct"]
    require(min(Fm_, l, Cm, Ct) > 1e-12 and max(Fm_, l, Cm, Ct) < 1e6)  # positive constants (also under shrinking)
    args = [Fm_, l, Cm, Ct, case["T"], np.array(case["M"], float)]
    omega, F, F_moment, F_thrust, M_sat = [cy.vec(o) for o in alloc_fn()(*args)]
    o = oracle(case)
    # (1) range and motor speeds
    if not (np.all(np.isfinite(F)) and np.all(np.isfinite(omega))):
        raise Violation("non-finite motor force/speed: F=%s omega=%s" % (F.tolist(), omega.tolist()), **case)
    if F.min() < 0 or F.max() > Fm_:
        raise Violation("motor force outside [0, F_max]: %s (F_max=%g)" % (F.tolist(), Fm_), **case)
    if omega.min() < 0:
        raise Violation("negative motor speed %s" % omega.tolist(), **case)
    L.close(omega**2 * Ct, F, "omega^2 Ct vs motor force", atol=1e-12 * Fm_, rtol=0, **case)
    # (4) reported intermediate outputs
    L.close(M_sat, o["M_sat"], "reported M_sat vs range-limited moment", atol=1e-12 * (1 + np.max(np.abs(o["M_sat"]))), rtol=0, **case)
    L.close(F_moment, o["F_mom"], "reported F_moment vs A (0, M_sat)", atol=1e-10 * (Fm_ + np.max(np.abs(o["F_mom"]))), rtol=0, **case)
    L.close(F_thrust, o["F_thr"], "reported F_thrust vs T_sat/4", atol=1e-12 * Fm_, rtol=0, **case)
    G = o["G"]
    wr = G @ F
    scale = np.array([Fm_, l * Fm_, l * Fm_, Cm * Fm_])
    F_des = o["F_des"]
    tolF = 1e-10 * Fm_
    # (2) jointly achievable => reproduced exactly
    if F_des.min() >= 0 and F_des.max() <= Fm_:
        want = np.concatenate([[o["T_sat"]], o["M_sat"]])
        err = np.abs(wr - want) / scale
        if err.max() > 1e-9:
            raise Violation("jointly achievable demand not reproduced: G F = %s, demanded (T_sat, M_sat) = %s "
                            "(C1=%g, C2=%g)" % (wr.tolist(), want.tolist(), o["C1"], o["C2"]),
                            F=F.tolist(), F_des=F_des.tolist(), **case)
    # (3) moment alone achievable => moment exact, least thrust shift
    if o["spread"] <= Fm_:
        errm = np.abs(wr[1:] - o["M_sat"]) / scale[1:]
        if errm.max() > 1e-9:
            raise Violation("moment achievable (spread %.6g <= F_max %.6g) but realised moment %s != demanded %s" % (
                o["spread"], Fm_, wr[1:].tolist(), o["M_sat"].tolist()), F=F.tolist(), F_des=F_des.tolist(), **case)
        lo = 4 * (-float(o["F_mom"].min()))
        hi = 4 * (Fm_ - float(o["F_mom"].max()))
        tw = min(max(o["T_sat"], lo), hi)
        if abs(wr[0] - tw) > 1e-9 * 4 * Fm_:
            raise Violation("collective thrust %.12g is not the least shift of the demand (expected %.12g; T_sat=%.12g, "
                            "admissible [%.12g, %.12g])" % (wr[0], tw, o["T_sat"], lo, hi), F=F.tolist(), **case)


def build(tier):
    cells = [
        Cell("alloc/random", gen_case(), check, lambda c: any(m != 0 for m in c["M"]), classes, quick=3000, thorough=60000,
             build=lambda: alloc_fn().build()),
        Cell("alloc/boundary", gen_boundary(), check, lambda c: any(m != 0 for m in c["M"]), classes, quick=1500, thorough=20000),
    ]
    req = {"alloc/random": ["joint/C1+/C2+", "moment-only/C1+/C2-", "moment-only/C1-/C2+", "infeasible/C1-/C2-",
                            "T<0", "T>4Fmax"],
           "alloc/boundary": ["C10", "C20"]}
    return {
        "cells": cells,
        "rule": RULE,
        "assumptions": [
            "motor geometry signs taken from the shipped mixer: x (-,+,+,-), y (-,+,-,+), z (-,-,+,+); the check also asserts "
            "that the reported F_moment / F_thrust outputs equal A (0, M_sat) and T_sat/4",
            "range-limited demand: T_sat = clip(T, 0, 4 F_max), M_sat = clip(M, +-l 4 F_max / 2) per axis (as the function reports)",
            "relative tolerance 1e-9 on thrust/moment (scaled by F_max, l F_max, Cm F_max); feasibility conditions are "
            "evaluated exactly as stated (closed intervals)",
        ],
        "require_classes": req,
        "matchers": {},
    }
