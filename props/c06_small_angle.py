"""C06 — small-angle handling is singularity-free, accurate (1e-9) and differentiable."""
from __future__ import annotations

import math

import mpmath as mp
import numpy as np
from hypothesis import strategies as st

from vlib import cy, gens, ref
from vlib.harness import Cell, Violation, require
from props import common_lie as L

ca = cy.ca
PI = math.pi
DPS = 50
TOL = 1e-9
RULE = (
    "Cases: rotation vector = axis*theta with theta forced through the strata {exactly 0; denormal 1e-320..1e-8; "
    "tiny 1e-8..1e-2; each series switch (theta = 1e-3, sqrt(1e-3), 2 sqrt(1e-3)) +- k ulp, +-1e-9..1e-3 relative and "
    "+-50%; (1e-2, 1]} x generated/edge axes x O(1) translational parts, for every public function that consumes a "
    "series coefficient. Oracle: the exact value at the same double inputs computed with mpmath at 50 digits "
    "(phi(ad) power series for the Jacobians, closed forms for exp parameters, x itself for log(round(exp x))). "
    "Non-trivial: 0 < theta <= 1; distinct = hash of (cell, inputs rounded to 9 digits)."
)
STRATA = ("zero", "denormal", "tiny", "switch", "small")
SCALES = (-1, 0, 0, 0)


def mpf(x):
    return mp.mpf(float(x))


def mp_vec(v):
    return [mpf(a) for a in v]


# ---------------------------------------------------------------------------------------
# exact references (mpmath)
# ---------------------------------------------------------------------------------------

def mp_struct_ad(gi, x):
    """ad_x from the structure constants of the hat basis (exact small integers)."""
    n = gi.na
    if not hasattr(gi, "_struct"):
        E = L.basis_matrices(gi)
        c = np.zeros((n, n, n))
        for i in range(n):
            for j in range(n):
                col, res = L.vee(gi, E[i] @ E[j] - E[j] @ E[i])
                c[i, j, :] = np.round(col)
        gi._struct = c
    c = gi._struct
    A = mp.zeros(n)
    for i in range(n):
        xi = mpf(x[i])
        if xi == 0:
            continue
        for j in range(n):
            for k in range(n):
                if c[i, j, k] != 0:
                    A[k, j] += xi * int(c[i, j, k])
    return A


def mp_phi(A, sign=1):
    """sum_k (sign*A)^k/(k+1)!  (the left Jacobian is phi(ad_x), the right one phi(-ad_x))."""
    n = A.rows
    S = mp.eye(n)
    term = mp.eye(n)
    k = 1
    As = A * sign
    while k < 200:
        term = term * As / (k + 1)
        S = S + term
        if max(abs(term[i, j]) for i in range(n) for j in range(n)) < mp.mpf(10) ** (-(DPS + 5)):
            break
        k += 1
    return S


def exact_jac(gi, x, key):
    with mp.workdps(DPS + 10):
        A = mp_struct_ad(gi, x)
        if key == "Jl":
            M = mp_phi(A, 1)
        elif key == "Jr":
            M = mp_phi(A, -1)
        elif key == "Jl_inv":
            M = mp.inverse(mp_phi(A, 1))
        elif key == "Jr_inv":
            M = mp.inverse(mp_phi(A, -1))
        elif key == "Ql":
            M = mp_phi(A, 1)[0:3, 3:6]
        elif key == "Qr":
            M = mp_phi(A, -1)[0:3, 3:6]
        return ref.mp_to_np(M)


def exact_rot_params(w, rep):
    """Exact parameters (as floats) of exp(hat(w)) in representation rep; w doubles."""
    with mp.workdps(DPS + 10):
        wv = mp_vec(w)
        th2 = wv[0] ** 2 + wv[1] ** 2 + wv[2] ** 2
        th = mp.sqrt(th2)
        if rep == "quat":
            if th == 0:
                return [1.0, 0.0, 0.0, 0.0]
            s = mp.sin(th / 2) / th
            return [float(mp.cos(th / 2))] + [float(s * a) for a in wv]
        if rep == "mrp":
            if th == 0:
                return [0.0, 0.0, 0.0]
            s = mp.tan(th / 4) / th
            return [float(s * a) for a in wv]
        R = ref.mp_rotvec_to_R(wv, DPS)
        if rep == "dcm":
            return [float(R[i, j]) for j in range(3) for i in range(3)]
        if rep == "euler":
            psi = mp.atan2(R[1, 0], R[0, 0])
            tht = mp.asin(-R[2, 0])
            phi = mp.atan2(R[2, 1], R[2, 2])
            return [float(psi), float(tht), float(phi)]
    raise ValueError(rep)


def exact_Jl_v(w, v):
    with mp.workdps(DPS + 10):
        J = ref.mp_Jl_so3(w, DPS)
        vv = mp.matrix(mp_vec(v))
        r = J * vv
        return [float(r[i]) for i in range(3)]


def exact_exp_params(gi, x):
    """Exact group parameters of exp(x) for SO3*, SE3*, SE23*, SE2."""
    lay = gi.layout
    if gi.name == "SE2":
        with mp.workdps(DPS + 10):
            th = mpf(x[2])
            if th == 0:
                a, b = mp.mpf(1), mp.mpf(0)
            else:
                a, b = mp.sin(th) / th, (1 - mp.cos(th)) / th
            vx, vy = mpf(x[0]), mpf(x[1])
            return [float(a * vx - b * vy), float(b * vx + a * vy), float(th)]
    rep = [s[1] for s in lay if s[0] == "rot"][0]
    w = x[-3:]
    out = []
    nvec = sum(1 for s in lay if s[0] == "vec")
    for i in range(nvec):
        out += exact_Jl_v(w, x[3 * i:3 * i + 3])
    out += exact_rot_params(w, rep)
    return out


# ---------------------------------------------------------------------------------------
# cells
# ---------------------------------------------------------------------------------------

def strat_alg(gi):
    d = {s_: gens.algebra_element(gi.alg_layout, rot_strata=(s_,), max_angle=1.0, scales=SCALES, se2_max=1.0)
         for s_ in STRATA}
    return d


def nt_alg(case):
    angs, vs = gens.algebra_stats(case)
    return all(0 < a <= 1.0 for a in angs)


def classify_alg(case):
    out = []
    for s in case:
        if "axis" in s:
            out.append("rot:" + s["stratum"])
            th = s["angle"]
            for sw in gens.SWITCHES:
                if th != sw and abs(th / sw - 1) < 1e-6:
                    out.append("switch%.4f:%s" % (sw, "below" if th < sw else "above"))
                elif th == sw:
                    out.append("switch%.4f:at" % sw)
    return out or ["plane"]


def cmp_abs(got, want, what, **details):
    got = np.asarray(got, float).reshape(-1)
    want = np.asarray(want, float).reshape(-1)
    if got.shape != want.shape:
        raise Violation("%s: shape %s vs %s" % (what, got.shape, want.shape))
    if not np.all(np.isfinite(got)):
        raise Violation("%s: non-finite output %s" % (what, got.tolist()), **details)
    err = float(np.max(np.abs(got - want)))
    if err > TOL:
        raise Violation("%s: |double - exact| = %.3e > 1e-9" % (what, err), got=got.tolist(), exact=want.tolist(), **details)


JAC_GROUPS = {"so3": "SO3Quat", "se3": "SE3Quat", "se23": "SE23Quat"}
EXP_GROUPS = ["SO3Quat", "SO3Mrp", "SO3Dcm", "SO3EulerB321", "SE2", "SE3Quat", "SE3Mrp", "SE3(Dcm)", "SE3(Euler)",
              "SE23Quat", "SE23Mrp", "SE23(Dcm)", "SE23(Euler)"]


def jac_cells(tier):
    R = cy.registry()
    cells = []
    for aname, gname in JAC_GROUPS.items():
        gi = R[gname]
        keys = ["Jl", "Jr", "Jl_inv", "Jr_inv"] + (["Ql", "Qr"] if aname == "se3" else [])
        for key in keys:
            def check(case, gi=gi, key=key, aname=aname):
                x = gens.encode_algebra(case)
                got = gi.fn(key)(x)
                want = exact_jac(gi, x, key)
                cmp_abs(got, want, "%s.%s" % (aname, key), x=x.tolist())

            cells.append(Cell("%s/%s/acc" % (aname, key), strat_alg(gi), check, nt_alg, classify_alg, quick=150, thorough=3000,
                              build=lambda gi=gi, key=key: gi.fn(key).build()))
    return cells


def exp_cells(tier):
    R = cy.registry()
    cells = []
    for gname in EXP_GROUPS:
        gi = R[gname]

        def check_exp(case, gi=gi):
            x = gens.encode_algebra(case)
            got = gi.exp(x)
            want = exact_exp_params(gi, x)
            cmp_abs(got, want, "%s.exp parameters" % gi.name, x=x.tolist())

        cells.append(Cell("%s/exp/acc" % gname, strat_alg(gi), check_exp, nt_alg, classify_alg, quick=150, thorough=3000,
                          build=lambda gi=gi: gi.fn("exp").build()))

        def check_log(case, gi=gi):
            x = gens.encode_algebra(case)
            X = np.array(exact_exp_params(gi, x), float)  # exact exp rounded to double
            got = gi.log(X)
            cmp_abs(got, x, "%s.log(round(exp x)) vs x" % gi.name, x=x.tolist(), X=X.tolist())

        cells.append(Cell("%s/log/acc" % gname, strat_alg(gi), check_log, nt_alg, classify_alg, quick=150, thorough=3000,
                          build=lambda gi=gi: gi.fn("log").build()))
    return cells


REPS = {"quat": "SO3Quat", "mrp": "SO3Mrp", "dcm": "SO3Dcm", "euler": "SO3EulerB321"}
FROM = {"quat": "from_Quat", "mrp": "from_Mrp", "dcm": "from_Dcm", "euler": "from_Euler"}
_conv = {}


def conv_fn(src, dst):
    key = (src, dst)
    if key not in _conv:
        Gs, Gd = cy.SO3_OF[src], cy.SO3_OF[dst]

        def mk(src=src, dst=dst, Gs=Gs, Gd=Gd):
            X = ca.SX.sym("X", Gs.n_param)
            if src == "matrix":
                raise KeyError
            return [X], [ca.densify(getattr(Gd, FROM[src])(Gs.elem(X)).param)]

        _conv[key] = cy.Fn("conv_%s_%s" % (src, dst), mk)
    return _conv[key]


def conv_cells(tier):
    cells = []
    strat = {s_: gens.rotation(strata=(s_,), max_angle=1.0, signs=(1,), shadow=(False,)) for s_ in STRATA}
    for src in REPS:
        for dst in REPS:
            if src == dst:
                continue

            def check(case, src=src, dst=dst):
                w = gens.unit_axis(case["axis"]) * case["angle"]
                Xs = np.array(exact_rot_params(w, src), float)
                want = np.array(exact_rot_params(w, dst), float)
                got = cy.vec(conv_fn(src, dst)(Xs))
                if dst == "quat" and float(got @ want) < 0:
                    got = -got
                cmp_abs(got, want, "%s -> %s near identity" % (src, dst), w=w.tolist(), src=Xs.tolist())

            cells.append(Cell("conv/%s->%s/acc" % (src, dst), strat, check, lambda c: 0 < c["angle"] <= 1.0,
                              lambda c: ["rot:" + c["stratum"]], quick=100, thorough=2000,
                              build=lambda src=src, dst=dst: conv_fn(src, dst).build()))
    return cells


# ---------------------------------------------------------------------------------------
# automatic differentiation is finite at and around zero
# ---------------------------------------------------------------------------------------
_adf = {}


def ad_fn(gi, key):
    k = (gi.name, key)
    if k not in _adf:
        def mk(gi=gi, key=key):
            f = gi.fn(key).build()
            X = ca.SX.sym("X", f.size1_in(0), f.size2_in(0))
            y = f(X)
            return [X], [ca.densify(ca.jacobian(ca.vec(y), ca.vec(X)))]

        _adf[k] = cy.Fn("jac_%s_%s" % (gi.name.replace("(", "_").replace(")", ""), key), mk)
    return _adf[k]


def ad_cells(tier):
    R = cy.registry()
    cells = []
    ad_strata = {s_: None for s_ in ("zero", "denormal", "tiny", "switch")}
    todo = []
    for aname, gname in JAC_GROUPS.items():
        for key in ["Jl", "Jr", "Jl_inv", "Jr_inv"] + (["Ql", "Qr"] if aname == "se3" else []):
            todo.append((R[gname], key, "alg", "%s/%s" % (aname, key)))
    for gname in EXP_GROUPS:
        todo.append((R[gname], "exp", "alg", "%s/exp" % gname))
        todo.append((R[gname], "log", "grp", "%s/log" % gname))
    for gi, key, kind, label in todo:
        strat = {s_: gens.algebra_element(gi.alg_layout, rot_strata=(s_,), max_angle=1.0, scales=SCALES, se2_max=1.0,
                                          ang_tiny=(s_ in ("zero", "denormal")))
                 for s_ in ad_strata}

        def check(case, gi=gi, key=key, kind=kind, label=label):
            x = gens.encode_algebra(case)
            if kind == "grp":
                arg = np.array(exact_exp_params(gi, x), float)
            else:
                arg = x
            J = ad_fn(gi, key)(arg)
            if not np.all(np.isfinite(J)):
                bad = np.argwhere(~np.isfinite(J))[:4].tolist()
                raise Violation("casadi.jacobian of %s is not finite at %s (entries %s)" % (
                    label, "the identity" if not np.any(x) else "a near-zero rotation", bad), arg=arg.tolist(), x=x.tolist())

        cells.append(Cell("%s/ad_finite" % label, strat, check, lambda c: True, classify_alg, quick=60, thorough=800,
                          build=lambda gi=gi, key=key: ad_fn(gi, key).build()))

        # the AD Jacobian is the derivative: agreement with central differences of the function itself
        strat_v = {s_: gens.algebra_element(gi.alg_layout, rot_strata=(s_,), max_angle=1.0, scales=SCALES, se2_max=1.0)
                   for s_ in ("tiny", "switch", "small")}

        def check_val(case, gi=gi, key=key, kind=kind, label=label):
            x = gens.encode_algebra(case)
            arg = np.array(exact_exp_params(gi, x), float) if kind == "grp" else x
            J = ad_fn(gi, key)(arg)
            f = gi.fn(key)
            n = arg.shape[0]
            h = 1e-6
            Jn = np.zeros_like(np.atleast_2d(J))
            for i in range(n):
                e = np.zeros(n)
                e[i] = h
                yp = np.asarray(f(arg + e)).reshape(-1, order="F")
                ym = np.asarray(f(arg - e)).reshape(-1, order="F")
                Jn[:, i] = (yp - ym) / (2 * h)
            err = float(np.max(np.abs(np.atleast_2d(J) - Jn)))
            sc = 1.0 + float(np.max(np.abs(Jn)))
            if not np.all(np.isfinite(J)) or err > 2e-5 * sc:
                raise Violation("casadi.jacobian of %s differs from central differences of the function by %.3e (scale %.3g)" % (
                    label, err, sc), arg=arg.tolist())

        cells.append(Cell("%s/ad_value" % label, strat_v, check_val, nt_alg, classify_alg, quick=30, thorough=600))
    return cells


def build(tier):
    cells = jac_cells(tier) + exp_cells(tier) + conv_cells(tier) + ad_cells(tier)
    req = {}
    for c in cells:
        if c.name.endswith("/acc") and not c.name.startswith("conv/") and not c.name.startswith("SE2/"):
            req[c.name] = ["rot:" + s for s in STRATA]
    return {
        "cells": cells,
        "rule": RULE,
        "assumptions": [
            "exact values: mpmath at 50 digits evaluated at the double inputs actually passed (input rounding is not "
            "charged to the code); Jacobians = phi(+-ad_x) power series with ad from the structure constants of the hat basis",
            "log cells: input = exact exp(x) rounded to double, expected log = x (conditioning for theta <= 1 is O(1))",
            "absolute bound 1e-9 for O(1) translational inputs (scales 0.1..1 generated), as the property states",
            "quaternion targets are compared up to the sign of the whole quaternion",
        ],
        "require_classes": req,
        "matchers": {},
    }
