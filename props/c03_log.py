"""C03 — log inverts exp and returns the principal, representation-independent rotation."""
from __future__ import annotations

import math

import numpy as np
from hypothesis import strategies as st

from vlib import cy, gens, ref
from vlib.harness import Cell, Violation, require
from props import common_lie as L

PI = math.pi
MARGIN = 1e-2
RULE = (
    "Cases: (a) group elements in every representation (quaternion sign +-, MRP principal/shadow, DCM, Euler) with "
    "rotation angle in [0, pi-1e-2] U [pi+1e-2, 2pi-0.05] (as axis-angle; the second interval is the same set of "
    "rotations reached the long way round), SE(2) |theta| < 2pi-1e-2; (b) algebra elements with rotation angle "
    "< pi-1e-2; (c) one (axis, angle, translations) encoded into all four SO(3) parameterisations and both "
    "quaternion signs. Oracles: matrix equality for exp(log X); vector equality for log(exp x); principal log = "
    "vee(logm(M(X))) by scipy and the harness' atan2-based rotation log. Non-trivial: "
    "rotation angle in [1e-2, pi-1e-2] (mod the long way round), non-zero translations; for principal/crossrep "
    "additionally q0<0 or a non-zero translation; distinct = hash of (cell, inputs rounded to 9 digits)."
)
STRATA_G = ("zero", "tiny", "switch", "mid", "beyond", "nearpole")
STRATA_A = ("zero", "denormal", "tiny", "switch", "mid", "nearpole")


def geodesic(spec_rot):
    th = spec_rot["angle"]
    return th if th <= PI else 2 * PI - th


def _rot_ok(spec):
    for s in spec:
        if "rot" in s:
            if abs(s["rot"]["angle"] - PI) < MARGIN:
                return False
    return True


def _tscale(spec):
    angs, vs = gens.element_stats(spec)
    return 1.0 + sum(vs)


def _cond(spec):
    """1/(pi - geodesic angle) factor for the conditioning of log near pi, capped."""
    c = 1.0
    for s in spec:
        if "rot" in s:
            c = max(c, 1.0 / max(PI - geodesic(s["rot"]), 1e-3))
    return c


def logm_vee(gi, M, tier):
    # scipy's principal matrix logarithm in both tiers (mpmath.logm returns a non-principal branch for rotations
    # beyond ~pi/2 about a coordinate axis, e.g. 3.1 rad about x -> 3.1 - pi)
    Ln = ref.logm_real(M)
    x, res = L.vee(gi, Ln)
    return x, res


def make_cells(gi, tier):
    nm = gi.name
    cells = []
    has_rot = any(s[0] == "rot" for s in gi.layout)
    elem = gens.group_element(gi.layout, rot_strata=STRATA_G, max_angle=2 * PI - 0.05, se2_max=2 * PI - 1e-2)
    alg = gens.algebra_element(gi.alg_layout, rot_strata=STRATA_A, max_angle=PI - MARGIN, se2_max=PI - MARGIN)

    def nontrivial_g(case):
        angs, vs = gens.element_stats(case)
        g = [a if a <= PI else 2 * PI - a for a in angs]
        return all(MARGIN <= a for a in g) and all(v > 0 for v in vs)

    def classify_g(case):
        out = []
        for sl in case:
            if "rot" in sl:
                out.append("rot:" + sl["rot"]["stratum"])
                if sl["rep"] == "quat":
                    out.append("q0<0" if (math.cos(sl["rot"]["angle"] / 2) * sl["rot"]["sign"]) < 0 else "q0>=0")
                if sl["rep"] == "mrp":
                    r = gens.encode_rot(sl["rot"], "mrp")
                    out.append("mrp|r|>1" if float(np.dot(r, r)) > 1 else "mrp|r|<=1")
        return out or ["norot"]

    def check_explog(case):
        require(_rot_ok(case))
        X = gens.encode_element(case)
        require(L.euler_input_ok(gi, X))
        MX = gi.toM(X)
        x = gi.log(X)
        if not np.all(np.isfinite(x)):
            raise Violation("%s: log(X) not finite: %s" % (nm, x), X=X.tolist())
        got = gi.toM(gi.exp(x))
        tol = L.mat_tol(gi, MX)
        L.close(got, MX, "%s: M(exp(log X)) vs M(X)" % nm, atol=max(tol, 1e-9 * _cond(case)), rtol=1e-9 * _cond(case),
                scale=_tscale(case), X=X.tolist(), logX=x.tolist())

    cells.append(Cell("%s/explog" % nm, elem, check_explog, nontrivial_g, classify_g, quick=250, thorough=4000,
                      build=lambda: (gi.fn("log").build(), gi.fn("exp").build(), gi.fn("toM").build())))

    def nontrivial_a(case):
        angs, vs = gens.algebra_stats(case)
        return all(a >= MARGIN for a in angs) and all(v > 0 for v in vs)

    def classify_a(case):
        return ["rot:" + s["stratum"] for s in case if "axis" in s] or ["norot"]

    def check_logexp(case):
        x = gens.encode_algebra(case)
        X = gi.exp(x)
        # Euler results inside the gimbal band only carry the band accuracy
        band = L.band_result(gi, gi.toM(X))
        x2 = gi.log(X)
        angs, vs = gens.algebra_stats(case)
        cond = max([1.0] + [1.0 / max(PI - a, 1e-3) for a in angs])
        atol = (5 * L.BAND_TOL * (1 + sum(vs))) if band else 1e-9 * cond
        L.close(x2, x, "%s: log(exp(x)) vs x" % nm, atol=atol, rtol=1e-9 * cond, scale=1.0 + sum(vs) + np.max(np.abs(x)),
                x=x.tolist(), expx=X.tolist())

    cells.append(Cell("%s/logexp" % nm, alg, check_logexp, nontrivial_a, classify_a, quick=250, thorough=4000))

    # ---- exp / log called directly on numeric (DM) parameters, in sequences of nearly identical inputs
    @st.composite
    def num_seq(draw):
        return {"x": draw(alg), "pert": [draw(st.sampled_from([0.0, 1e-9, 1e-7, -1e-6, 1e-5])) for _ in range(draw(st.integers(1, 3)))],
                "d": draw(gens.vector(gi.na, scales=(0,), allow_zero=False))}

    def check_numeric(case):
        x0 = gens.encode_algebra(case["x"])
        for eps in [0.0] + list(case["pert"]):
            x = x0 + eps * np.array(case["d"])
            Xs = gi.exp(x)
            Xn = cy.vec(gi.numeric("exp", x))
            L.close(Xn, Xs, "%s: exp called on numeric parameters (after earlier numeric calls) vs the symbolic function" % nm,
                    atol=1e-12, rtol=1e-12, scale=float(np.max(np.abs(Xs))) + 1, x=x.tolist(), eps=eps)
            ls = gi.log(Xs)
            ln = cy.vec(gi.numeric("log", Xs))
            if np.all(np.isfinite(ls)):
                L.close(ln, ls, "%s: log called on numeric parameters (after earlier numeric calls) vs the symbolic function" % nm,
                        atol=1e-12, rtol=1e-12, scale=float(np.max(np.abs(ls))) + 1, X=Xs.tolist(), eps=eps)

    cells.append(Cell("%s/numeric_mode" % nm, num_seq(), check_numeric, nontrivial_a, classify_a, quick=25, thorough=400))

    if has_rot:
        # canonical inputs: unit quaternion of either sign, MRP with |r|<=1 (shadow=False and angle<=pi),
        # any DCM, any Euler triple
        elem_c = gens.group_element(gi.layout, rot_strata=("zero", "tiny", "switch", "mid"), max_angle=PI - MARGIN,
                                    se2_max=PI - MARGIN)

        def nontrivial_p(case):
            if not nontrivial_g(case):
                return False
            neg = any("rot" in s and s["rep"] == "quat" and s["rot"]["sign"] < 0 for s in case)
            angs, vs = gens.element_stats(case)
            return neg or any(v > 0 for v in vs) or not any(s.get("rep") == "quat" for s in case)

        def check_principal(case):
            case = [dict(s, rot=dict(s["rot"], shadow=False)) if "rot" in s else s for s in case]
            X = gens.encode_element(case)
            require(L.euler_input_ok(gi, X))
            x = gi.log(X)
            if not np.all(np.isfinite(x)):
                raise Violation("%s: log(X) not finite" % nm, X=X.tolist())
            # rotation parts: norm <= pi and equal to the harness's principal log
            for (slot, xs), sl in zip(gens.split_params(x, gi.alg_layout), case):
                if slot[0] == "rotvec":
                    nrm = float(np.linalg.norm(xs))
                    if nrm > PI + 1e-9:
                        raise Violation("%s: rotation part of log(X) has norm %.9f > pi (not the smallest-angle "
                                        "rotation vector)" % (nm, nrm), X=X.tolist(), logX=x.tolist())
                    want = ref.log_SO3(gens.rot_R(sl["rot"]))
                    L.close(xs, want, "%s: rotation part of log(X) vs principal rotation vector" % nm,
                            atol=1e-9 * _cond(case), rtol=0, X=X.tolist(), logX=x.tolist())
            # full vector vs matrix logarithm
            want, res = logm_vee(gi, gi.toM(X), tier)
            require(res < 1e-9)
            L.close(x, want, "%s: log(X) vs vee(logm(M(X)))" % nm, atol=2e-9 * _cond(case), rtol=2e-9 * _cond(case),
                    scale=_tscale(case), X=X.tolist(), logX=x.tolist())

        cells.append(Cell("%s/principal" % nm, elem_c, check_principal, nontrivial_p, classify_g, quick=120, thorough=1200))
    return cells


FAMILIES = {
    "SO3": [("SO3Quat", "quat"), ("SO3Mrp", "mrp"), ("SO3Dcm", "dcm"), ("SO3EulerB321", "euler")],
    "SE3": [("SE3Quat", "quat"), ("SE3Mrp", "mrp"), ("SE3(Dcm)", "dcm"), ("SE3(Euler)", "euler")],
    "SE23": [("SE23Quat", "quat"), ("SE23Mrp", "mrp"), ("SE23(Dcm)", "dcm"), ("SE23(Euler)", "euler")],
}


def crossrep_cell(fam, tier):
    R = cy.registry()
    members = FAMILIES[fam]
    nvec = {"SO3": 0, "SE3": 1, "SE23": 2}[fam]

    @st.composite
    def st_case(draw):
        rot = draw(gens.rotation(strata=("zero", "tiny", "switch", "mid"), max_angle=PI - MARGIN, shadow=(False,)))
        vs = [draw(gens.vector(3)) for _ in range(nvec)]
        return {"rot": rot, "vecs": vs}

    def logs(case):
        out = {}
        for gname, rep in members:
            gi = R[gname]
            signs = (1, -1) if rep == "quat" else (1,)
            for sg in signs:
                spec = [{"vec": v} for v in case["vecs"]] + [{"rot": dict(case["rot"], sign=sg, shadow=False), "rep": rep}]
                X = gens.encode_element(spec)
                if rep == "euler" and not L.euler_input_ok(gi, X):
                    continue
                out["%s%s" % (gname, "" if rep != "quat" else ("+" if sg > 0 else "-"))] = gi.log(X)
        return out

    def check(case):
        lg = logs(case)
        want_rot = gens.unit_axis(case["rot"]["axis"]) * case["rot"]["angle"]
        cond = 1.0 / max(PI - case["rot"]["angle"], 1e-3)
        sc = 1.0 + sum(float(np.linalg.norm(v)) for v in case["vecs"])
        keys = sorted(lg)
        for k in keys:
            if not np.all(np.isfinite(lg[k])):
                raise Violation("%s crossrep: log via %s not finite" % (fam, k), case=case)
            L.close(lg[k][-3:], want_rot, "%s crossrep: rotation part of log via %s vs axis*angle" % (fam, k),
                    atol=1e-9 * cond, rtol=0, via=k)
        for i in range(len(keys)):
            for j in range(i + 1, len(keys)):
                L.close(lg[keys[i]], lg[keys[j]], "%s crossrep: log via %s vs log via %s" % (fam, keys[i], keys[j]),
                        atol=2e-9 * cond, rtol=2e-9 * cond, scale=sc)

    def nontrivial(case):
        return case["rot"]["angle"] >= MARGIN and all(float(np.linalg.norm(v)) > 0 for v in case["vecs"])

    def classify(case):
        return ["rot:" + case["rot"]["stratum"]]

    return Cell("%s/crossrep" % fam, st_case(), check, nontrivial, classify, quick=300, thorough=5000)


def euler_variant_cell():
    def check(case):
        i = case["variant"]
        require(0 <= i < len(L.euler_variants()))
        name, ty, seq, G = L.euler_variants()[i]
        ang = np.array(case["ang"], float)
        M = L.euler_variant_matrix(ty, seq, ang)
        th = float(np.linalg.norm(ref.log_SO3(M)))
        require(th <= PI - 1e-2)
        w = cy.vec(L.euler_variant_fn(i, "log")(ang))
        if not np.all(np.isfinite(w)):
            raise Violation("%s: log returned non-finite values %s" % (name, w.tolist()), **case)
        if float(np.linalg.norm(w)) > PI + 1e-9:
            raise Violation("%s: |log| = %.12g exceeds pi" % (name, np.linalg.norm(w)), **case)
        a = float(np.linalg.norm(w))
        R = ref.rodrigues(w / a, a) if a > 0 else np.eye(3)
        d = ref.rot_dist(R, M)
        tol = 1e-9 / max(PI - th, 1e-2) + 1e-9
        if d > tol:
            raise Violation("%s: exp(log(X)) differs from X by %.3e rad (tol %.1e)" % (name, d, tol), log=w.tolist(), **case)

    return Cell("SO3EulerVariants/explog", L.euler_variant_case(), check, lambda c: sum(abs(a) > 1e-2 for a in c["ang"]) >= 2,
                lambda c: [L.euler_variants()[c["variant"]][1]], quick=460, thorough=6000)


def euler_band_cell():
    """exp/log through the body 3-2-1 Euler parameterisation for rotations whose pitch lies INSIDE the gimbal band of either
    pole (|pitch -+ pi/2| < 1e-3): exp(x) represents expm(x) and exp(log(X)) = X to the documented band accuracy (seed C03-r6A:
    negative-pole yaw off by pi)."""
    import casadi as ca
    from hypothesis import strategies as st

    @st.composite
    def band_case(draw):
        return {"psi": draw(gens.fl(-PI, PI)), "phi": draw(gens.fl(-PI, PI)), "pole": draw(st.sampled_from([-1, 1])),
                "delta": draw(st.sampled_from([0.0, 1e-9, 1e-6, 1e-4, 5e-4, 9e-4]))}

    def check(case):
        require(case["pole"] in (-1, 1) and 0 <= case["delta"] <= 9e-4 and abs(case["psi"]) <= PI and abs(case["phi"]) <= PI)
        from cyecca.lie.group_so3 import SO3EulerB321, so3
        R = ref.euler321_to_R([case["psi"], case["pole"] * (PI / 2 - case["delta"]), case["phi"]])
        w = ref.log_SO3(R)
        th = float(np.linalg.norm(w))
        require(th <= PI - 1e-2)
        with cy.quiet():
            X = so3.elem(ca.DM(w)).exp(SO3EulerB321)
            M = np.array(ca.DM(X.to_Matrix()), float)
            w2 = np.array(ca.DM(X.log().param), float).reshape(-1)
        if not (np.all(np.isfinite(M)) and np.all(np.isfinite(w2))):
            raise Violation("SO3EulerB321 in the gimbal band: non-finite exp/log", M=M.tolist(), log=w2.tolist(), **case)
        d1 = ref.rot_dist(M, R)
        if d1 > L.BAND_TOL:
            raise Violation("SO3EulerB321 exp(x) inside the gimbal band (pole %+d) differs from expm(x) by %.3e rad > %.1e"
                            % (case["pole"], d1, L.BAND_TOL), **case)
        a = float(np.linalg.norm(w2))
        R2 = ref.rodrigues(w2 / a, a) if a > 0 else np.eye(3)
        d2 = ref.rot_dist(R2, M)
        tol = 1e-9 / max(PI - th, 1e-2) + 1e-9
        if d2 > tol:
            raise Violation("SO3EulerB321 inside the gimbal band (pole %+d): exp(log(X)) differs from X by %.3e rad (tol %.1e)"
                            % (case["pole"], d2, tol), log=w2.tolist(), **case)
        if a > PI + 1e-9:
            raise Violation("SO3EulerB321 inside the gimbal band: |log| = %.12g exceeds pi" % a, **case)

    return Cell("SO3EulerB321/band_explog", band_case(), check, lambda c: abs(c["phi"]) > 1e-2 and abs(c["psi"]) > 1e-2,
                lambda c: ["pole:%+d" % c["pole"], "delta:%g" % c["delta"]], quick=300, thorough=5000)


def so3_tight_cell():
    """log(exp(x)) = x for the bare SO(3) parameterisations (quaternion, DCM, MRP) at 1e-12 * conditioning instead of the general
    1e-9: the unchanged tree is accurate to ~1e-15 here (measured over 6e4 angles 1e-8 .. pi - 1e-2), so a 'guarded' divisor or a
    truncated constant that costs 1e-10 is visible (seed C03-r6B).  Euler is left out (gimbal band accuracy)."""
    import casadi as ca
    from hypothesis import strategies as st
    fns = {}

    def fn(rep):
        if rep not in fns:
            from cyecca.lie import group_so3 as g
            G = {"quat": g.SO3Quat, "dcm": g.SO3Dcm, "mrp": g.SO3Mrp}[rep]
            x = ca.SX.sym("x", 3)
            with cy.quiet():
                fns[rep] = ca.Function("logexp_" + rep, [x], [g.so3.elem(x).exp(G).log().param])
        return fns[rep]

    @st.composite
    def case(draw):
        return {"rep": draw(st.sampled_from(["quat", "dcm", "mrp"])), "axis": draw(gens.axis()),
                "angle": draw(st.one_of(gens.fl(-8.0, 0.49).map(lambda e: 10.0 ** e), gens.fl(1e-3, PI - 1e-2)))}

    def check(c):
        th = c["angle"]
        n = math.sqrt(sum(a * a for a in c["axis"]))
        require(c["rep"] in ("quat", "dcm", "mrp") and 0 < th <= PI - 1e-2 and abs(n - 1) < 1e-9)
        w = np.array(c["axis"], float) / n * th
        got = cy.vec(fn(c["rep"])(w))
        if not np.all(np.isfinite(got)):
            raise Violation("SO3 %s: log(exp(x)) non-finite" % c["rep"], **c)
        tol = 1e-12 * max(1.0, 1.0 / (PI - th))
        err = float(np.max(np.abs(got - w)))
        if err > tol:
            raise Violation("SO3 %s: log(exp(x)) differs from x by %.3e > %.1e at angle %.6g (unchanged tree: ~1e-15)"
                            % (c["rep"], err, tol, th), got=got.tolist(), x=w.tolist(), **c)

    return Cell("SO3/logexp_tight", case(), check, lambda c: c["angle"] > 1e-6, lambda c: ["rep:" + c["rep"]], quick=900, thorough=20000)


def build(tier):
    cells = []
    for gi in L.all_groups(tier):
        cells += make_cells(gi, tier)
    for fam in FAMILIES:
        cells.append(crossrep_cell(fam, tier))
    cells.append(euler_variant_cell())
    cells.append(euler_band_cell())
    cells.append(so3_tight_cell())
    return {
        "cells": cells,
        "rule": RULE,
        "assumptions": [
            "rotation angles are kept 1e-2 rad away from pi (the property's 'small margin'); tolerances scale with "
            "1/(pi-angle) (conditioning of log) and with 1+|translations|",
            "canonical inputs for the principal cells: unit quaternions of either sign, MRPs with |r|<=1, DCM, Euler",
            "principal log oracle: scipy.linalg.logm (both tiers) projected on the "
            "algebra basis (closure residual checked), plus an atan2-based rotation log written in the harness",
        ],
        "matchers": {},
    }
