"""C19 — SymPy <-> CasADi expression conversion preserves meaning."""
from __future__ import annotations

import math

import numpy as np
from hypothesis import strategies as st

from vlib import cy, gens
from vlib.harness import Cell, Violation, require

ca = cy.ca
import sympy  # noqa: E402

RULE = (
    "Cases: expression trees from a recursive grammar (JSON AST, depth <= 5). SymPy->CasADi: symbols, integers, "
    "rationals, non-integer floats (coefficients and exponents), Add, Mul, integer/half/rational/float powers on "
    "positive bases, sin/cos/tan/atan, matrices, user functions through f_dict with several keys, cse on/off, plus "
    "constructs the parser does not list (exp, Abs, Max, Piecewise, Mod, pi, relational) which must raise or convert "
    "faithfully. CasADi->SymPy: every scalar opcode reachable from the public SX API (arithmetic, powers, sq, twice, inv, "
    "exp/log, trig, hyperbolic and inverses, atan2, comparisons, ==, !=, not/and/or, floor/ceil, fmod, remainder, fabs, "
    "sign, erf, fmin/fmax, if_else, constants) with typed (numeric/boolean) sub-trees, and matrices. Oracle: "
    "differential evaluation at generated points (equal operands, negative operands, exact zeros, ties): SymPy evalf at "
    "30 digits vs the CasADi Function. Non-trivial: depth >= 3 and >= 2 distinct operators, reference finite and "
    "well-conditioned at the point; per-operator hit counts are reported; distinct = hash of (cell, case)."
)
NAMES = ["x", "y", "z", "x0", "x1", "a"]
VALS = [0.0, 1.0, -1.0, 2.0, -2.0, 0.5, -0.5, 1.5, 2.5, -2.5, 3.0, -3.0, 0.25, 4.0, -4.0, 5.5, -5.5, 1e-3]


_LAMBDA_MODULES = [{"sign": lambda v: (v > 0) - (v < 0), "Abs": abs, "Mod": lambda a, b: a % b, "Max": max, "Min": min,
                    "Heaviside": lambda v: 1.0 if v > 0 else (0.5 if v == 0 else 0.0)}, "math"]


def sym():
    with cy.quiet():
        import cyecca.symbolic as s
    return s


# --------------------------------------------------------------------------------------
# SymPy -> CasADi
# --------------------------------------------------------------------------------------
USER_SYM = {"f1": lambda a: 2 * sympy.sin(a), "f2": lambda a: a**2 + 1, "f3": lambda a: sympy.cos(a) - a}
USER_CA = {"f1": lambda a: 2 * ca.sin(a), "f2": lambda a: a**2 + 1, "f3": lambda a: ca.cos(a) - a}


def s_leaf():
    return st.one_of(
        st.sampled_from(NAMES).map(lambda n: ["sym", n]),
        st.integers(-4, 6).map(lambda k: ["int", k]),
        st.tuples(st.integers(-7, 7), st.integers(2, 9)).map(lambda t: ["rat", t[0], t[1]]),
        st.sampled_from([2.5, 0.5, -1.5, 0.1, 3.75, 1e-3, 2.0, 1.25]).map(lambda v: ["float", v]),
    )


def s_tree(unsupported=False):
    def ext(ch):
        ops = [
            st.tuples(ch, ch).map(lambda t: ["add", t[0], t[1]]),
            st.tuples(ch, ch, ch).map(lambda t: ["add", t[0], t[1], t[2]]),
            st.tuples(ch, ch).map(lambda t: ["mul", t[0], t[1]]),
            st.tuples(ch, st.integers(-3, 4)).map(lambda t: ["ipow", t[0], t[1]]),
            ch.map(lambda a: ["sqrtp", a]),
            st.tuples(ch, st.tuples(st.integers(1, 5), st.integers(2, 4))).map(lambda t: ["rpow", t[0], t[1][0], t[1][1]]),
            st.tuples(ch, st.sampled_from([2.5, 0.5, 1.5, 0.3])).map(lambda t: ["fpow", t[0], t[1]]),
            ch.map(lambda a: ["sin", a]), ch.map(lambda a: ["cos", a]), ch.map(lambda a: ["tan", a]), ch.map(lambda a: ["atan", a]),
            st.tuples(st.sampled_from(["f1", "f2", "f3"]), ch).map(lambda t: ["user", t[0], t[1]]),
            # the same compound sub-expression used several times (what common-subexpression elimination extracts)
            st.tuples(ch, ch).map(lambda t: ["reuse", ["add", t[0], t[1]]]),
        ]
        if unsupported:
            ops += [ch.map(lambda a: ["exp", a]), ch.map(lambda a: ["abs", a]), st.tuples(ch, ch).map(lambda t: ["max", t[0], t[1]]),
                    st.tuples(ch, ch, ch).map(lambda t: ["piecewise", t[0], t[1], t[2]]),
                    st.tuples(ch, ch).map(lambda t: ["mod", t[0], t[1]]), st.just(["pi"]), ch.map(lambda a: ["log", a])]
        return st.one_of(ops)

    return st.recursive(s_leaf(), ext, max_leaves=10)


_S_TREE = {False: s_tree(False), True: s_tree(True)}
S2C_OPS = ["add", "mul", "ipow", "sqrtp", "rpow", "fpow", "sin", "cos", "tan", "atan", "user", "reuse"]


def s_forced(op):
    ch = _S_TREE[False]
    if op in ("add", "mul"):
        return st.tuples(ch, ch).map(lambda t: [op, t[0], t[1]])
    if op == "ipow":
        return st.tuples(ch, st.integers(-3, 4)).map(lambda t: ["ipow", t[0], t[1]])
    if op == "rpow":
        return st.tuples(ch, st.tuples(st.integers(1, 5), st.integers(2, 4))).map(lambda t: ["rpow", t[0], t[1][0], t[1][1]])
    if op == "fpow":
        return st.tuples(ch, st.sampled_from([2.5, 0.5, 1.5, 0.3])).map(lambda t: ["fpow", t[0], t[1]])
    if op == "user":
        return st.tuples(st.sampled_from(["f1", "f2", "f3"]), ch).map(lambda t: ["user", t[0], t[1]])
    if op == "reuse":
        return st.tuples(ch, ch).map(lambda t: ["reuse", ["add", t[0], t[1]]])
    return ch.map(lambda a: [op, a])


SFUN1 = ["exp", "log", "Abs", "sign", "floor", "ceiling", "asin", "acos", "sinh", "cosh", "tanh", "asinh", "erf"]
SFUN2 = ["Max", "Min", "Mod", "atan2"]


def s_forced_unsupported(name):
    """A SymPy function outside the converter's list applied to simple supported arguments (symbol, symbol * constant,
    symbol + constant): whatever the converter does with it - raise, or convert - must not change its value."""
    leaf = st.one_of(
        st.sampled_from(NAMES).map(lambda n: ["sym", n]),
        st.tuples(st.sampled_from(NAMES), st.sampled_from([2, -3])).map(lambda t: ["mul", ["int", t[1]], ["sym", t[0]]]),
        st.tuples(st.sampled_from(NAMES), st.sampled_from([0.25, -1.5, 3.0])).map(lambda t: ["add", ["sym", t[0]], ["float", t[1]]]),
        st.sampled_from([3, -3, 2]).map(lambda v: ["int", v]),
    )
    if name == "dummy":
        # sympy.Dummy symbols (distinct objects that may share a printed name) besides ordinary symbols
        dm = st.sampled_from([0, 1, 2]).map(lambda i: ["dummy", i])
        return st.tuples(dm, dm, leaf).map(lambda t: ["add", ["mul", ["int", 2], t[0]], ["mul", ["int", -3], t[1]], ["sin", ["add", t[0], t[2]]]])
    if name in SFUN1:
        core = leaf.map(lambda a: ["sfun", name, a])
    elif name in SFUN2:
        core = st.tuples(leaf, leaf).map(lambda t: ["sfun", name, t[0], t[1]])
    elif name == "piecewise":
        core = st.tuples(leaf, leaf, leaf).map(lambda t: ["piecewise", t[0], t[1], t[2]])
    elif name == "pi":
        core = leaf.map(lambda a: ["mul", ["pi"], a])
    else:
        raise ValueError(name)
    wrap = st.one_of(core, st.tuples(core, leaf).map(lambda t: ["add", t[0], ["mul", ["rat", 1, 2], t[1]]]), core.map(lambda c: ["sin", c]))
    return wrap


_DUMMIES = [sympy.Dummy("t"), sympy.Dummy("t"), sympy.Dummy("x")]  # distinct symbols, two of them with the same name


def to_sympy(t, syms):
    k = t[0]
    if k == "dummy":
        return _DUMMIES[t[1]]
    if k == "sfun":
        return getattr(sympy, t[1])(*[to_sympy(c, syms) for c in t[2:]])
    if k == "sym":
        return syms.setdefault(t[1], sympy.Symbol(t[1]))
    if k == "int":
        return sympy.Integer(t[1])
    if k == "rat":
        return sympy.Rational(t[1], t[2])
    if k == "float":
        return sympy.Float(t[1])
    if k == "pi":
        return sympy.pi
    a = [to_sympy(c, syms) for c in t[1:] if isinstance(c, list)]
    if k == "add":
        return sympy.Add(*a)
    if k == "mul":
        return sympy.Mul(*a)
    if k == "ipow":
        return a[0] ** sympy.Integer(t[2])
    if k == "sqrtp":
        return sympy.sqrt(a[0] ** 2 + 1)
    if k == "rpow":
        return (a[0] ** 2 + 1) ** sympy.Rational(t[2], t[3])
    if k == "fpow":
        return (a[0] ** 2 + 1) ** sympy.Float(t[2])
    if k in ("sin", "cos", "tan", "atan", "exp", "log"):
        return getattr(sympy, k)(a[0])
    if k == "abs":
        return sympy.Abs(a[0])
    if k == "max":
        return sympy.Max(a[0], a[1])
    if k == "mod":
        return sympy.Mod(a[0], a[1])
    if k == "piecewise":
        return sympy.Piecewise((a[1], a[0] > 0), (a[2], True))
    if k == "reuse":
        return sympy.sin(a[0]) * sympy.cos(a[0]) + a[0] ** 2
    if k == "user":
        return sympy.Function(t[1])(to_sympy(t[2], syms))
    raise ValueError(k)


def ops_of(t, acc=None):
    acc = set() if acc is None else acc
    if isinstance(t, list) and t and isinstance(t[0], str):
        acc.add(t[0])
        for c in t[1:]:
            if isinstance(c, list):
                ops_of(c, acc)
    return acc


def depth(t):
    if not isinstance(t, list) or not t or not isinstance(t[0], str):
        return 0
    return 1 + max([depth(c) for c in t[1:] if isinstance(c, list)] + [0])


def s_tree_magnitude_ok(t, point, limit=1e15):
    """Double-precision screen of a SymPy-side tree: False when some sub-expression is non-finite or larger than `limit` at
    the point (outside what a double comparison can decide - and exact integer/Mod arithmetic on such values in SymPy can
    take hours).  Errors (domain, overflow, division by zero) also give False."""
    import math as m_

    def ev(t):
        k = t[0]
        if k == "sym":
            return float(point.get(t[1], 0.0))
        if k == "int":
            return float(t[1])
        if k == "rat":
            return t[1] / t[2]
        if k == "float":
            return float(t[1])
        if k == "pi":
            return m_.pi
        if k == "dummy":
            return [0.75, -1.25, 2.5][t[1]]
        if k == "mat":
            for row in t[1]:
                for e in row:
                    ev(e)
            return 0.0
        a = [ev(c) for c in t[1:] if isinstance(c, list)]
        if k == "add":
            v = sum(a)
        elif k == "mul":
            v = 1.0
            for x in a:
                v *= x
        elif k == "ipow":
            v = a[0] ** int(t[2])
        elif k == "sqrtp":
            v = m_.sqrt(a[0] ** 2 + 1)
        elif k == "rpow":
            v = (a[0] ** 2 + 1) ** (t[2] / t[3])
        elif k == "fpow":
            v = (a[0] ** 2 + 1) ** float(t[2])
        elif k in ("sin", "cos", "tan", "atan", "exp", "log"):
            v = getattr(m_, k)(a[0])
        elif k == "abs":
            v = abs(a[0])
        elif k == "max":
            v = max(a)
        elif k == "mod":
            v = m_.fmod(a[0], a[1])
        elif k == "piecewise":
            v = max(abs(x) for x in a)
        elif k == "reuse":
            v = m_.sin(a[0]) * m_.cos(a[0]) + a[0] ** 2
        elif k == "user":
            x = ev(t[2])
            v = max(abs(2 * m_.sin(x)), abs(x * x + 1), abs(m_.cos(x) - x))  # any binding of f1..f3
        elif k == "sfun":
            name = t[1]
            if name in ("Max", "Min", "Mod", "atan2"):
                v = max(abs(x) for x in a)
            elif name in ("exp", "sinh", "cosh"):
                v = m_.exp(abs(a[0]))
            elif name == "log":
                v = m_.log(a[0])
            else:
                v = max(abs(a[0]), 2.0)
        else:
            raise ValueError(k)
        if not m_.isfinite(v) or abs(v) > limit:
            raise OverflowError
        return v

    try:
        ev(t)
        return True
    except Exception:
        return False


def sympy_ref_value(expr, point, user=True, binding=None):
    """30-digit value of the source SymPy expression with user functions expanded by their definitions."""
    e = expr
    try:
        if user and e.atoms(sympy.Function):
            b = binding or {"f1": "f1", "f2": "f2", "f3": "f3"}
            tmp = {name: sympy.Function("tmp_" + name) for name in b}
            for name in b:  # two passes so that a permutation of the names is applied simultaneously
                e = e.replace(sympy.Function(name), tmp[name])
            for name, target in b.items():
                e = e.replace(tmp[name], USER_SYM[target])
        fs = {str(s_) for s_ in e.free_symbols}
        sub_ = {sympy.Symbol(k): sympy.Float(val, 30) for k, val in point.items() if k in fs}
        for i_, d_ in enumerate(_DUMMIES):  # Dummy symbols take fixed, distinct values
            if d_ in e.free_symbols:
                sub_[d_] = sympy.Float([0.75, -1.25, 2.5][i_], 30)
        v = e.evalf(30, subs=sub_)
    except Exception:
        return None  # division by zero etc.: outside the expression's domain
    return v


def as_real(v):
    if v is None:
        return None
    try:
        if v.is_real is False:
            return None
        c = complex(v)
    except Exception:
        return None
    if abs(c.imag) > 1e-20 * (1 + abs(c.real)) or not math.isfinite(c.real):
        return None
    return c.real


def _double_eval_agrees(expr, point, g, binding=None):
    """Evaluate the source expression with plain double-precision arithmetic (lambdify -> math); large intermediate
    arguments of sin/cos/tan lose digits in any double evaluation, which is not a conversion error."""
    try:
        e = expr
        if e.atoms(sympy.Function):
            b = binding or {"f1": "f1", "f2": "f2", "f3": "f3"}
            tmp = {name: sympy.Function("tmp_" + name) for name in b}
            for name in b:
                e = e.replace(sympy.Function(name), tmp[name])
            for name, target in b.items():
                e = e.replace(tmp[name], USER_SYM[target])
        keys = sorted(str(s_) for s_ in e.free_symbols)
        f = sympy.lambdify([sympy.Symbol(k) for k in keys], e, modules=_LAMBDA_MODULES)
        v = float(f(*[float(point[k]) for k in keys]))
        return math.isfinite(v) and abs(v - g) <= 1e-9 * (1 + abs(v)) * 1e-2
    except Exception:
        return False


def well_conditioned(expr, point, val, binding=None):
    for k in point:
        p2 = dict(point)
        p2[k] = point[k] * (1 + 1e-12) + 1e-13
        v2 = as_real(sympy_ref_value(expr, p2, binding=binding))
        if v2 is None or abs(v2 - val) > 1e-6 * (1 + abs(val)):
            return False
    # conditioning with respect to the numeric constants of the expression itself (e.g. tan(1e18): any double evaluation
    # of the argument differs in its last bits)
    try:
        nums = [a for a in expr.atoms(sympy.Float)] + [a for a in expr.atoms(sympy.Integer) if abs(a) > 10**6]
        if nums:
            e2 = expr.xreplace({a: sympy.Float(a, 30) * (1 + sympy.Float("1e-12", 30)) for a in nums})
            v3 = as_real(sympy_ref_value(e2, point, binding=binding))
            if v3 is None or abs(v3 - val) > 1e-6 * (1 + abs(val)):
                return False
    except Exception:
        return False
    return True


@st.composite
def s2c_case(draw, unsupported=False, matrix=False, op=None, unsupported_op=None):
    if unsupported_op is not None:
        tree = draw(s_forced_unsupported(unsupported_op))
        return {"tree": tree, "cse": draw(st.booleans()), "point": {n: draw(st.sampled_from(VALS)) for n in NAMES},
                "fdict_order": draw(st.permutations(["f1", "f2", "f3"]))}
    if op is not None:
        tree = draw(s_forced(op))
        if draw(st.booleans()):
            tree = ["add", tree, ["mul", ["float", draw(st.sampled_from([2.5, 0.1, 1.25]))], ["sym", draw(st.sampled_from(NAMES))]]]
        return {"tree": tree, "cse": draw(st.booleans()), "point": {n: draw(st.sampled_from(VALS)) for n in NAMES},
                "fdict_order": draw(st.permutations(["f1", "f2", "f3"]))}
    if matrix:
        r, c = draw(st.integers(1, 3)), draw(st.integers(1, 3))
        tree = ["mat", [[draw(_S_TREE[False]) for _ in range(c)] for _ in range(r)]]
    else:
        tree = draw(_S_TREE[unsupported])
    return {"tree": tree, "cse": draw(st.booleans()), "point": {n: draw(st.sampled_from(VALS)) for n in NAMES},
            "fdict_order": draw(st.permutations(["f1", "f2", "f3"]))}


def convert_s2c(case, syms_table=None):
    s = sym()
    syms = {}
    if case["tree"][0] == "mat":
        expr = sympy.Matrix([[to_sympy(e, syms) for e in row] for row in case["tree"][1]])
    else:
        expr = to_sympy(case["tree"], syms)
    binding = case.get("binding") or {"f1": "f1", "f2": "f2", "f3": "f3"}  # name used in the expression -> definition bound by this call
    f_dict = {k: USER_CA[binding[k]] for k in case["fdict_order"] if k in binding}
    table = {} if syms_table is None else syms_table
    f_ca, table2 = s.sympy_to_casadi(expr, f_dict=f_dict, symbols=table, cse=case["cse"])
    return expr, f_ca, table2


def eval_ca(f_ca, table, point):
    names = sorted(table)
    F = ca.Function("F", [table[n] for n in names], [ca.densify(ca.SX(f_ca))])
    return np.array(F.call([ca.DM(point.get(n, 0.0)) for n in names])[0], float)


_OK_TYPES = None


def only_supported_nodes(expr):
    """True if every node of the (auto-evaluated) SymPy expression is of a type the converter lists."""
    global _OK_TYPES
    if _OK_TYPES is None:
        n = sympy.core.numbers
        _OK_TYPES = (sympy.Add, sympy.Mul, sympy.Pow, n.Integer, n.Rational, n.Float, n.Half, n.One, n.Zero, n.NegativeOne,
                     sympy.Symbol, sympy.sin, sympy.cos, sympy.tan, sympy.atan, sympy.MatrixBase)
    for node in sympy.preorder_traversal(expr):
        if isinstance(node, _OK_TYPES):
            continue
        if isinstance(node, sympy.core.function.AppliedUndef) and type(node).__name__ in USER_SYM:
            continue
        return False
    return True


def check_s2c(case, must_convert=True):
    require(s_tree_magnitude_ok(case["tree"], case["point"]))  # out-of-range / out-of-domain points: discarded (counted)
    try:
        expr, f_ca, table = convert_s2c(case)
    except NotImplementedError:
        if must_convert:
            syms_ = {}
            t_ = case["tree"]
            e_ = sympy.Matrix([[to_sympy(e, syms_) for e in row] for row in t_[1]]) if t_[0] == "mat" else to_sympy(t_, syms_)
            if only_supported_nodes(e_):
                raise Violation("sympy_to_casadi raised NotImplementedError on an expression made of supported node types only: %s"
                                % sympy.srepr(e_)[:300], tree=case["tree"])
            from vlib.harness import Discard
            raise Discard()  # SymPy's automatic evaluation introduced a constant/function the converter does not list
        return "raised"
    except Exception as e:
        if must_convert:
            if isinstance(e, (ArithmeticError, ValueError)):
                # the converter evaluates constant sub-expressions eagerly: 1/sin(f1(0)) raises ZeroDivisionError.  That is
                # "raises an error" for an expression that has no value anywhere - only a violation if the expression is
                # defined at some generated point
                syms_ = {}
                t_ = case["tree"]
                e_ = sympy.Matrix([[to_sympy(x_, syms_) for x_ in row] for row in t_[1]]) if t_[0] == "mat" else to_sympy(t_, syms_)
                pts = [case["point"]] + [{n: v_ for n in NAMES} for v_ in (0.5, -1.5, 2.5)]
                items_ = list(e_) if isinstance(e_, sympy.MatrixBase) else [e_]
                defined = any(all(as_real(sympy_ref_value(it, p_)) is not None for it in items_) for p_ in pts)
                if not defined:
                    from vlib.harness import Discard
                    raise Discard()
            raise
        return "raised"
    free = sorted(str(s_) for s_ in expr.free_symbols)
    if sorted(table) != free:
        raise Violation("symbol table after conversion has names %s, expression has free symbols %s (cse=%s)" % (
            sorted(table), free, case["cse"]), tree=case["tree"])
    got = eval_ca(f_ca, table, case["point"])
    if isinstance(expr, sympy.MatrixBase):
        items = [(i, j, expr[i, j]) for i in range(expr.shape[0]) for j in range(expr.shape[1])]
        if got.shape != tuple(expr.shape):
            raise Violation("matrix shape %s -> %s" % (expr.shape, got.shape), tree=case["tree"])
    else:
        items = [(0, 0, expr)]
    checked = 0
    for i, j, e in items:
        ref = as_real(sympy_ref_value(e, case["point"]))
        if ref is None:
            continue
        g = float(got[i, j])
        if not math.isfinite(g) or abs(g - ref) > 1e-9 * (1 + abs(ref)):
            if not well_conditioned(e, case["point"], ref):
                continue
            if _double_eval_agrees(e, case["point"], g):
                continue  # the same expression evaluated in double precision gives CasADi's value: conditioning, not conversion
            raise Violation("sympy_to_casadi changed the value: SymPy %s = %.15g at %s, CasADi result = %.15g (cse=%s, f_dict order %s)" % (
                str(e)[:200], ref, {k: v for k, v in case["point"].items() if k in free}, g, case["cse"], case["fdict_order"]),
                tree=case["tree"], point=case["point"])
        checked += 1
    require(checked > 0)
    return "ok"


def s2c_nontrivial(case):
    t = case["tree"]
    if t[0] == "mat":
        return True
    return depth(t) >= 3 and len(ops_of(t) - {"sym", "int", "rat", "float"}) >= 2


def s2c_classify(case):
    t = case["tree"]
    ops = set()
    if t[0] == "mat":
        for row in t[1]:
            for e in row:
                ops |= ops_of(e)
        ops.add("mat")
    else:
        ops = ops_of(t)
    return sorted("op:" + o for o in ops) + ["cse" if case["cse"] else "nocse"]


# ---- symbol table across calls ----------------------------------------------------------

def _rename(t, mp):
    if isinstance(t, list) and t and t[0] == "sym":
        return ["sym", mp.get(t[1], t[1])]
    if isinstance(t, list):
        return [_rename(c, mp) if isinstance(c, list) else c for c in t]
    return t


@st.composite
def symtab_case(draw):
    """2-5 conversions sharing one symbol table; symbol names are drawn from a small set that overlaps the names
    SymPy's cse gives its temporaries (x0, x1, ...), and cse calls are made to contain a repeated sub-expression."""
    n = draw(st.integers(2, 5))
    calls = []
    for _ in range(n):
        c = draw(s2c_case())
        mp = {nm: draw(st.sampled_from(["x0", "x1", "y", "x2"])) for nm in NAMES}
        c["tree"] = _rename(c["tree"], mp)
        if c["cse"] and draw(st.booleans()):
            c["tree"] = ["reuse", ["add", c["tree"], ["sym", draw(st.sampled_from(["y", "x1", "x2"]))]]]
        c["point"] = dict(c["point"], x2=0.5)
        # every call binds the user-function names to its own definitions, and may leave one name out of its map
        perm = draw(st.permutations(["f1", "f2", "f3"]))
        c["binding"] = dict(zip(["f1", "f2", "f3"], perm))
        if draw(st.integers(0, 3)) == 0:
            c["binding"].pop(draw(st.sampled_from(["f1", "f2", "f3"])))
        calls.append(c)
    return {"calls": calls}


def check_symtab(case):
    table = {}  # the caller's own dict object, initially empty, reused for every call (not the returned one)
    seen = {}
    for idx, c in enumerate(case["calls"]):
        used = {type(a).__name__ for a in to_sympy(c["tree"], {}).atoms(sympy.Function)} & {"f1", "f2", "f3"}
        missing = used - set(c["binding"])
        try:
            expr, f_ca, returned = convert_s2c(c, table)
        except NotImplementedError:
            if missing:
                continue  # the call does not map every user function it uses: raising is the required behaviour
            require(False)
        if missing:
            raise Violation("call %d converted an expression that uses %s although its f_dict has no entry for it (a mapping from an "
                            "earlier call was reused)" % (idx, sorted(missing)), calls=[cc["tree"] for cc in case["calls"]],
                            bindings=[cc["binding"] for cc in case["calls"]])
        # value under this call's own bindings
        ref_ = as_real(sympy_ref_value(expr, c["point"], binding=c["binding"]))
        if ref_ is not None:
            g_ = float(eval_ca(f_ca, table, c["point"])[0, 0])
            if (not math.isfinite(g_) or abs(g_ - ref_) > 1e-9 * (1 + abs(ref_))) and well_conditioned(expr, c["point"], ref_, c["binding"]):
                if not _double_eval_agrees(expr, c["point"], g_, c["binding"]):
                    raise Violation("call %d: value %.15g differs from the source expression under this call's own function map %s: %.15g" % (
                        idx, g_, c["binding"], ref_), calls=[cc["tree"] for cc in case["calls"]], bindings=[cc["binding"] for cc in case["calls"]])
        if sorted(returned) != sorted(table):
            raise Violation("call %d: the symbol table passed by the caller holds %s but the returned table holds %s "
                            "(the caller's table is not the one being filled)" % (idx, sorted(table), sorted(returned)),
                            calls=[cc["tree"] for cc in case["calls"]])
        for nm_ in returned:
            if not bool(ca.is_equal(returned[nm_], table[nm_])):
                raise Violation("call %d: symbol %r differs between the caller's table and the returned table" % (idx, nm_),
                                calls=[cc["tree"] for cc in case["calls"]])
        for name, var in table.items():
            if name in seen and not bool(ca.is_equal(seen[name], var)):
                raise Violation("symbol %r maps to a different CasADi variable in call %d than before (shared symbol table)" % (name, idx),
                                calls=[cc["tree"] for cc in case["calls"]], cse=[cc["cse"] for cc in case["calls"]])
            seen[name] = var
        for name in seen:
            if name not in table:
                raise Violation("symbol %r was dropped from the shared symbol table by call %d (cse=%s)" % (name, idx, c["cse"]),
                                calls=[cc["tree"] for cc in case["calls"]], cse=[cc["cse"] for cc in case["calls"]])
        # the expression must depend on exactly the table variables of its free symbols
        free = sorted(str(s_) for s_ in expr.free_symbols)
        dep = [n for n in table if bool(ca.depends_on(ca.SX(f_ca), table[n]))]
        extra = [str(v) for v in ca.symvar(ca.SX(f_ca)) if not any(bool(ca.is_equal(v, table[n])) for n in table)]
        if extra:
            raise Violation("converted expression contains variables %s that are not in the symbol table" % extra,
                            tree=c["tree"], cse=c["cse"])


# --------------------------------------------------------------------------------------
# CasADi -> SymPy
# --------------------------------------------------------------------------------------
NUM1 = ["neg", "exp", "log", "sqrt", "sq", "twice", "inv", "sin", "cos", "tan", "asin", "acos", "atan", "floor", "ceil",
        "fabs", "sign", "erf", "sinh", "cosh", "tanh", "asinh", "acosh", "atanh", "log1p"]
NUM2 = ["add", "sub", "mul", "div", "pow", "fmod", "remainder", "fmin", "fmax", "atan2", "hypot", "copysign"]
CMP = ["lt", "le", "eq", "ne", "gt", "ge"]


def c_leaf():
    return st.one_of(
        st.sampled_from(NAMES[:4]).map(lambda n: ["sym", n]),
        st.sampled_from([0.0, 1.0, 2.0, -1.0, 2.5, -0.5, 3.0, 0.25, -3.0, 7.0, 3e-12, -2e-10, 1 + 4e-10, 41.9999999996, 1e-15,
                         1e9 + 0.5, 123456.789]).map(lambda v: ["const", v]),
    )


def c_num():
    def ext(ch):
        boolean = st.one_of(
            st.tuples(st.sampled_from(CMP), ch, ch).map(lambda t: [t[0], t[1], t[2]]),
        )
        boolean2 = st.one_of(
            boolean,
            st.tuples(boolean, boolean).map(lambda t: ["and", t[0], t[1]]),
            st.tuples(boolean, boolean).map(lambda t: ["or", t[0], t[1]]),
            boolean.map(lambda b: ["not", b]),
        )
        return st.one_of(
            st.tuples(st.sampled_from(NUM1), ch).map(lambda t: [t[0], t[1]]),
            st.tuples(st.sampled_from(NUM2), ch, ch).map(lambda t: [t[0], t[1], t[2]]),
            st.tuples(ch, st.sampled_from([2, 3, -1, 0.5, 2.5, 1.4142135623, 0.7316, -1.2345678])).map(lambda t: ["cpow", t[0], t[1]]),
            st.tuples(boolean2, ch, ch).map(lambda t: ["if_else", t[0], t[1], t[2]]),
            st.tuples(boolean2, ch).map(lambda t: ["if_else_zero", t[0], t[1]]),
        )

    return st.recursive(c_leaf(), ext, max_leaves=8)


_C_NUM = c_num()


def c_bool():
    num = _C_NUM
    b = st.tuples(st.sampled_from(CMP), num, num).map(lambda t: [t[0], t[1], t[2]])
    return st.one_of(b, st.tuples(b, b).map(lambda t: ["and", t[0], t[1]]), st.tuples(b, b).map(lambda t: ["or", t[0], t[1]]),
                     b.map(lambda x: ["not", x]))


_C_BOOL = c_bool()


def c_forced(op):
    """A numeric tree whose root is the given operator (children from the general strategy): guarantees that every
    operator is exercised in every run."""
    ch = _C_NUM
    if op in NUM1:
        return ch.map(lambda a: [op, a])
    if op == "copysign":
        # the sign source is often exactly zero (C's copysign treats +0 as positive): a symbol, a symbol minus one of the
        # sampled values, or a literal zero
        sy = st.sampled_from(NAMES[:4]).map(lambda n: ["sym", n])
        zero_prone = st.one_of(sy, st.tuples(sy, st.sampled_from([1.0, -1.0, 0.5, 2.0])).map(lambda t: ["sub", t[0], ["const", t[1]]]),
                               st.just(["const", 0.0]), ch)
        return st.tuples(ch, zero_prone).map(lambda t: [op, t[0], t[1]])
    if op in NUM2:
        return st.tuples(ch, ch).map(lambda t: [op, t[0], t[1]])
    if op == "cpow":
        return st.tuples(ch, st.sampled_from([2, 3, -1, 0.5, 2.5, 1.4142135623, 0.7316, -1.2345678])).map(lambda t: ["cpow", t[0], t[1]])
    cmpb = st.tuples(st.sampled_from(CMP), ch, ch).map(lambda t: [t[0], t[1], t[2]])
    if op in CMP:
        b = st.tuples(ch, ch).map(lambda t: [op, t[0], t[1]])
        return st.tuples(b, ch, ch).map(lambda t: ["if_else", t[0], t[1], t[2]])
    if op in ("and", "or"):
        return st.tuples(cmpb, cmpb, ch, ch).map(lambda t: ["if_else", [op, t[0], t[1]], t[2], t[3]])
    if op == "not":
        return st.tuples(cmpb, ch, ch).map(lambda t: ["if_else", ["not", t[0]], t[1], t[2]])
    if op == "if_else":
        return st.tuples(cmpb, ch, ch).map(lambda t: ["if_else", t[0], t[1], t[2]])
    if op == "if_else_zero":
        return st.tuples(cmpb, ch).map(lambda t: ["if_else_zero", t[0], t[1]])
    if op == "guard":
        # a selection guarding a singular branch: the expression is defined where the singular branch is not selected
        u = st.one_of(st.sampled_from(NAMES[:4]).map(lambda n: ["sym", n]),
                      st.tuples(st.sampled_from(NAMES[:4]), st.sampled_from([1.0, -2.0, 0.5])).map(lambda t: ["sub", ["sym", t[0]], ["const", t[1]]]))
        lf = c_leaf()

        def mk(t):
            u_, kind, alt, rel, wrap = t
            sing = {"sinc": ["div", ["sin", u_], u_], "xlogx": ["mul", u_, ["log", u_]], "inv": ["inv", u_], "div": ["div", alt, u_],
                    "sqrt": ["sqrt", u_], "cosm": ["div", ["sub", ["const", 1.0], ["cos", u_]], ["sq", u_]]}[kind]
            cond = [rel, u_, ["const", 0.0]]
            body = ["if_else", cond, sing, alt] if wrap != 1 else ["if_else_zero", cond, sing]
            if wrap == 2:
                body = ["if_else", ["not", cond], alt, sing]
            return body if wrap != 3 else ["add", body, alt]

        return st.tuples(u, st.sampled_from(["sinc", "xlogx", "inv", "div", "sqrt", "cosm"]), lf, st.sampled_from(["ne", "gt", "ge", "lt"]),
                         st.integers(0, 3)).map(mk)
    if op == "near_consts":
        # two sub-expressions that differ only in a constant beyond the 6th significant digit (what a printed form hides)
        base = st.sampled_from([0.1234567, 1.0000001, 1000000.25, 0.3333333, 2.7182818, 41.9999999])
        d = st.sampled_from([1e-7, 3e-8, -1e-7, 1e-6])
        sy = st.sampled_from(NAMES[:4]).map(lambda n: ["sym", n])

        def mk(t):
            c1, dd, a, b, shape, comb = t
            c2 = c1 * (1 + dd) if c1 < 1e5 else c1 + 0.5
            f = {0: lambda c, v: ["mul", ["const", c], v], 1: lambda c, v: ["sin", ["mul", ["const", c], v]],
                 2: lambda c, v: ["add", ["const", c], v], 3: lambda c, v: ["div", v, ["const", c]]}[shape]
            return [comb, f(c1, a), f(c2, b)]

        return st.tuples(base, d, sy, sy, st.integers(0, 3), st.sampled_from(["sub", "add", "mul", "fmax"])).map(mk)
    if op == "sel_sum":
        # a sum of two one-sided selections with unrelated conditions, the second one negated: the same node shape
        # CasADi uses internally for if_else(c, a, b) = if_else_zero(c, a) + if_else_zero(!c, b), but not that function
        # (conditions on leaves and mostly leaf values, so that the generated points separate the two conditions)
        lf = c_leaf()
        cl = st.tuples(st.sampled_from(CMP), lf, lf).map(lambda t: [t[0], t[1], t[2]])
        val = st.one_of(lf, lf, ch)
        return st.tuples(cl, val, cl, val, st.booleans()).map(
            lambda t: ["add", ["if_else_zero", t[0], t[1]], ["if_else_zero", ["not", t[2]], t[3]]] if t[4] else
            ["add", ["if_else_zero", ["not", t[0]], t[1]], ["if_else_zero", t[2], t[3]]])
    raise ValueError(op)


C2S_OPS = NUM1 + NUM2 + ["cpow", "if_else", "if_else_zero", "lt", "le", "eq", "ne", "and", "or", "not", "sel_sum", "guard", "near_consts"]


def to_casadi(t, table, nodes=None, perts=None):
    r = _to_casadi(t, table, nodes, perts)
    if nodes is not None:
        nodes.append(r)
    if perts is not None and t[0] not in ("sym", "const"):
        d = ca.SX.sym("d%d" % len(perts))  # relative rounding error of this node
        perts.append(d)
        r = r * (1 + d)
    return r


def _to_casadi(t, table, nodes=None, perts=None):
    k = t[0]
    if k == "sym":
        if t[1] not in table:
            table[t[1]] = ca.SX.sym(t[1])
        return table[t[1]]
    if k == "const":
        return ca.SX(t[1])
    a = [to_casadi(c, table, nodes, perts) for c in t[1:] if isinstance(c, list)]
    u = {"neg": lambda x: -x, "exp": ca.exp, "log": ca.log, "sqrt": ca.sqrt, "sq": lambda x: x * x, "twice": lambda x: 2 * x,
         "inv": lambda x: 1 / x, "sin": ca.sin, "cos": ca.cos, "tan": ca.tan, "asin": ca.asin, "acos": ca.acos, "atan": ca.atan,
         "floor": ca.floor, "ceil": ca.ceil, "fabs": ca.fabs, "sign": ca.sign, "erf": ca.erf, "sinh": ca.sinh, "cosh": ca.cosh,
         "tanh": ca.tanh, "asinh": ca.asinh, "acosh": ca.acosh, "atanh": ca.atanh, "log1p": ca.log1p, "not": ca.logic_not}
    b = {"add": lambda x, y: x + y, "sub": lambda x, y: x - y, "mul": lambda x, y: x * y, "div": lambda x, y: x / y,
         "pow": lambda x, y: x**y, "fmod": ca.fmod, "remainder": ca.remainder, "fmin": ca.fmin, "fmax": ca.fmax,
         "atan2": ca.atan2, "hypot": ca.hypot, "copysign": ca.copysign, "lt": lambda x, y: x < y, "le": lambda x, y: x <= y,
         "eq": ca.eq, "ne": ca.ne, "gt": lambda x, y: x > y, "ge": lambda x, y: x >= y, "and": ca.logic_and, "or": ca.logic_or}
    if k in u:
        return u[k](a[0])
    if k == "atan2" and nodes is not None:
        # atan2(0, 0) is outside the mathematical domain (C returns 0, SymPy nan): mark such points
        nodes.append(ca.if_else(ca.logic_and(ca.eq(a[0], 0), ca.eq(a[1], 0)), ca.SX(float("nan")), 0))
    if k in b:
        return b[k](a[0], a[1])
    if k == "cpow":
        return a[0] ** t[2]
    if k == "if_else":
        return ca.if_else(a[0], a[1], a[2])
    if k == "if_else_zero":
        return ca.if_else(a[0], a[1], 0)
    raise ValueError(k)


@st.composite
def c2s_case(draw, kind="num", op=None):
    if op is not None:
        tree = draw(c_forced(op))
        return {"tree": tree, "point": {n: draw(st.sampled_from(VALS)) for n in NAMES[:4]}}
    if kind == "mat":
        r, c = draw(st.integers(1, 3)), draw(st.integers(1, 3))
        tree = ["mat", [[draw(_C_NUM) for _ in range(c)] for _ in range(r)]]
    elif kind == "bool":
        tree = draw(_C_BOOL)
    else:
        tree = draw(_C_NUM)
    return {"tree": tree, "point": {n: draw(st.sampled_from(VALS)) for n in NAMES[:4]}}


class _NoInterp(Exception):
    pass


def mp_eval_sympy(e, values, dps=50):
    """Direct 50-digit interpreter of a SymPy expression tree (standard meaning of every node: Mod(a, b) = a - b floor(a/b),
    Piecewise = first true condition, ...).  Used for expressions containing Mod / floor, where SymPy's own substitution goes
    through exact-number simplification (Mod.eval -> equals -> simplify -> logcombine) and can spend hours in one huge integer
    power.  Raises _NoInterp for a node type it does not know (the caller then falls back to SymPy)."""
    import mpmath as mp

    F = sympy
    un = {F.sin: mp.sin, F.cos: mp.cos, F.tan: mp.tan, F.asin: mp.asin, F.acos: mp.acos, F.atan: mp.atan, F.sinh: mp.sinh,
          F.cosh: mp.cosh, F.tanh: mp.tanh, F.asinh: mp.asinh, F.acosh: mp.acosh, F.atanh: mp.atanh, F.exp: mp.exp, F.log: mp.log,
          F.Abs: abs, F.sign: mp.sign, F.floor: mp.floor, F.ceiling: mp.ceil, F.erf: mp.erf}

    def num(x):
        if isinstance(x, bool):
            raise _NoInterp("boolean used as a number")
        return x

    def ev(x):
        if x is F.true or x is True:
            return True
        if x is F.false or x is False:
            return False
        if isinstance(x, F.Symbol):
            return mp.mpf(float(values[str(x)]))
        if isinstance(x, F.Float):
            return mp.mpf(float(x))  # constants are exact doubles
        if isinstance(x, F.Integer):
            return mp.mpf(int(x))
        if isinstance(x, F.Rational):
            return mp.mpf(int(x.p)) / mp.mpf(int(x.q))
        if x is F.pi:
            return mp.pi
        if x is F.E:
            return mp.e
        if isinstance(x, F.Add):
            return mp.fsum(num(ev(a)) for a in x.args)
        if isinstance(x, F.Mul):
            r = mp.mpf(1)
            for a in x.args:
                r = r * num(ev(a))
            return r
        if isinstance(x, F.Pow):
            return num(ev(x.args[0])) ** num(ev(x.args[1]))
        if isinstance(x, F.Mod):
            a, b = num(ev(x.args[0])), num(ev(x.args[1]))
            return a - b * mp.floor(a / b)
        if isinstance(x, F.Max):
            return max(num(ev(a)) for a in x.args)
        if isinstance(x, F.Min):
            return min(num(ev(a)) for a in x.args)
        if isinstance(x, F.atan2):
            return mp.atan2(num(ev(x.args[0])), num(ev(x.args[1])))
        if isinstance(x, F.Piecewise):
            for val, cond in x.args:
                if ev(cond):
                    return ev(val)
            return mp.nan
        if isinstance(x, F.ITE):
            return ev(x.args[1]) if ev(x.args[0]) else ev(x.args[2])
        if isinstance(x, F.And):
            return all(bool(ev(a)) for a in x.args)
        if isinstance(x, F.Or):
            return any(bool(ev(a)) for a in x.args)
        if isinstance(x, F.Not):
            return not bool(ev(x.args[0]))
        rel = {F.StrictLessThan: lambda a, b: a < b, F.LessThan: lambda a, b: a <= b, F.StrictGreaterThan: lambda a, b: a > b,
               F.GreaterThan: lambda a, b: a >= b, F.Equality: lambda a, b: a == b, F.Unequality: lambda a, b: a != b}
        for cls, f in rel.items():
            if isinstance(x, cls):
                return bool(f(num(ev(x.args[0])), num(ev(x.args[1]))))
        for cls, f in un.items():
            if isinstance(x, cls):
                return f(num(ev(x.args[0])))
        raise _NoInterp(type(x).__name__)

    with mp.workdps(dps):
        v = ev(e)
        if isinstance(v, bool):
            return v
        if isinstance(v, mp.mpc):
            if abs(v.imag) > mp.mpf(10) ** (-dps + 10) * (1 + abs(v.real)):
                return sympy.nan if False else complex(v)
            v = v.real
        if not mp.isfinite(v):
            return sympy.nan
        return sympy.Float(mp.nstr(v, 40), 40)


def sympy_eval(e, syms, point):
    subs = {s_: sympy.Float(point[str(n)], 40) for n, s_ in syms.items() for _ in [0]}
    if isinstance(e, (bool, int, float)):
        return e
    if hasattr(e, "has") and (e.has(sympy.Mod) or e.has(sympy.floor)):
        try:
            return mp_eval_sympy(e, {str(n): point[str(n)] for n in syms})
        except _NoInterp:
            pass
        except (ZeroDivisionError, ValueError, OverflowError):
            return sympy.nan
    if hasattr(e, "atoms"):
        # constants arrive as 15-digit Floats holding exact doubles: extend their precision (same binary value) so that
        # Mod / floor of large quotients are evaluated exactly, as C's fmod / remainder are
        e = e.xreplace({f: sympy.Float(f, 40) for f in e.atoms(sympy.Float)})
    v = e.subs(subs) if hasattr(e, "subs") else e
    if v in (sympy.true, sympy.false) or isinstance(v, bool):
        return bool(v)
    if hasattr(v, "is_Relational") and v.is_Relational:
        v = v.simplify()
        return bool(v)
    v = sympy.N(v, 40)
    if v in (sympy.true, sympy.false):
        return bool(v)
    return v


def check_c2s(case):
    s = sym()
    table = {}
    nodes = []
    t = case["tree"]
    if t[0] == "mat":
        expr = ca.SX(len(t[1]), len(t[1][0]))
        for i, row in enumerate(t[1]):
            for j, e in enumerate(row):
                expr[i, j] = to_casadi(e, table, nodes)
    else:
        expr = ca.SX(to_casadi(t, table, nodes))
    names = sorted(table)
    F = ca.Function("F", [table[n] for n in names], [ca.densify(expr)])
    Fn = ca.Function("Fn", [table[n] for n in names], [ca.densify(ca.vertcat(*[ca.SX(n_) for n_ in nodes]))])
    allv = np.array(Fn.call([ca.DM(case["point"][n]) for n in names])[0], float)
    strict = bool(np.all(np.isfinite(allv))) and float(np.max(np.abs(allv))) < 1e12  # point inside every sub-expression's domain
    if not strict:
        # a selection may guard a singular branch (if_else(x != 0, sin(x)/x, 1) at x = 0): the point is in the domain of the
        # expression when every sub-expression on the *selected* paths is finite
        require(t[0] != "mat" and _selected_paths_finite(t, case["point"]))
        allv = np.array([0.0])
    floor = 1e-13 * (1.0 + float(np.max(np.abs(allv))))  # round-off of the double evaluation, relative to the largest intermediate
    # first-order rounding-error analysis of the *source* double evaluation: every node carries a relative error d_i of one
    # ulp; sum_i |dy/dd_i| * 2^-52 bounds what CasADi's own arithmetic can be off by (tan next to pi/2, cancellations, ...)
    roundoff = None
    if t[0] != "mat" and strict:
        try:
            tb2, perts = dict(table), []
            yp = ca.SX(to_casadi(t, tb2, None, perts))
            if perts:
                dv = ca.vertcat(*perts)
                Jf = ca.Function("Jf", [tb2[n] for n in names] + [dv], [ca.densify(ca.jacobian(yp, dv))])
                Jv = np.array(Jf.call([ca.DM(case["point"][n]) for n in names] + [ca.DM.zeros(len(perts))])[0], float)
                roundoff = float(np.sum(np.abs(Jv))) * 2.0**-52 if np.all(np.isfinite(Jv)) else float("inf")
                # discontinuous operators (fmod, floor, comparisons) have zero derivative next to a jump: also evaluate the source
                # with every intermediate result moved by +-1 ulp; if that changes the value, CasADi's own rounding decides it
                Yf = ca.Function("Yf", [tb2[n] for n in names] + [dv], [ca.densify(yp)])
                y0 = float(np.array(Yf.call([ca.DM(case["point"][n]) for n in names] + [ca.DM.zeros(len(perts))])[0], float)[0, 0])
                eps_ = 2.0**-52
                for pat in (1.0, -1.0, None, "alt"):
                    if pat is None:
                        dvals = [eps_ * (1 if (k_ * 7919) % 3 else -1) for k_ in range(len(perts))]
                    elif pat == "alt":
                        dvals = [eps_ * (1 if k_ % 2 else -1) for k_ in range(len(perts))]
                    else:
                        dvals = [eps_ * pat] * len(perts)
                    y1 = float(np.array(Yf.call([ca.DM(case["point"][n]) for n in names] + [ca.DM(dvals)])[0], float)[0, 0])
                    if not math.isfinite(y1) or abs(y1 - y0) > 1e-9 * (1 + abs(y0)):
                        roundoff = float("inf")
        except Exception:
            roundoff = None
    call = lambda vals: np.array(F.call([ca.DM(v) for v in vals])[0], float)
    got = call([case["point"][n] for n in names])
    syms = {}
    try:
        with cy.quiet():
            se = s.casadi_to_sympy(expr, syms)
    except Exception as ex:
        # "constructs it cannot represent raise an error": allowed - but not for an expression made only of the
        # constructs the property lists as accepted (arithmetic, integer powers and roots, trigonometric functions,
        # comparisons and their combinations, min/max, fmod/remainder, selections, matrices)
        # (only the converter's own "unsupported" signal counts: SymPy itself may refuse to build e.g. Max(x, asin(2))
        # when a branch that is never selected lies outside the real domain - that is an error raised, which is allowed)
        if isinstance(ex, NotImplementedError) and _c2s_must_accept(t):
            raise Violation("casadi_to_sympy declared unsupported (NotImplementedError) an expression made only of constructs it is "
                            "stated to accept: %s" % str(expr)[:200], tree=t)
        return
    smap = {str(k): v for k, v in syms.items()}
    items = [(i, j, se[i, j]) for i in range(se.shape[0]) for j in range(se.shape[1])] if isinstance(se, sympy.MatrixBase) else [(0, 0, se)]
    if isinstance(se, sympy.MatrixBase) and tuple(se.shape) != got.shape:
        raise Violation("casadi_to_sympy changed the matrix shape %s -> %s" % (got.shape, se.shape), tree=t)
    checked = 0
    for i, j, e in items:
        g = float(got[i, j])
        if not math.isfinite(g):
            continue
        # conditioning of the CasADi side: skip points where a tiny input change moves the value (branch/pole edges
        # are still covered by exact ties because VALS are exact and the perturbation is relative)
        try:
            v = sympy_eval(e, smap, case["point"])
        except Exception as ex:
            # SymPy's substitution evaluates relations of unselected Piecewise/ITE branches eagerly (e.g. x > sqrt(-1));
            # fall back to lazy numeric evaluation (lambdify to Python's math, ternaries evaluate one branch only)
            try:
                keys = sorted(smap)
                fl_ = sympy.lambdify([smap[k] for k in keys], e, modules=_LAMBDA_MODULES)
                v = fl_(*[case["point"][k] for k in keys])
                v = bool(v) if isinstance(v, (bool, np.bool_)) else sympy.Float(float(v), 30)
            except Exception:
                if not hasattr(e, "free_symbols"):
                    raise Violation("converted SymPy object cannot be evaluated: %r" % (e,), tree=t)
                continue  # undecidable at this point
        if isinstance(v, bool):
            vv = 1.0 if v else 0.0
        else:
            vv = as_real(v)
            if vv is None:
                if not strict and _is_nan(v):
                    raise Violation("casadi_to_sympy changed the value: CasADi %s = %.15g at %s (the singular branch is not selected), "
                                    "SymPy %s = nan" % (str(expr[i, j])[:160], g, {n: case["point"][n] for n in names}, str(e)[:160]),
                                    tree=t, point=case["point"])
                continue
        if abs(vv - g) > 1e-9 * abs(g) + floor:
            if roundoff is not None and roundoff > 0.1 * (1e-9 * abs(g) + floor):
                continue  # the source evaluation itself is not accurate to the tolerance at this point
            # the converted expression evaluated in plain double precision (lambdify -> math): if that reproduces CasADi's
            # double result, the high-precision difference comes from rounding of intermediates (tan near pi/2, fmod with a
            # quotient next to an integer, ...), not from the conversion
            try:
                keys_ = sorted(smap)
                vd = sympy.lambdify([smap[k] for k in keys_], e, modules=_LAMBDA_MODULES)(*[float(case["point"][k]) for k in keys_])
                vd = (1.0 if vd else 0.0) if isinstance(vd, (bool, np.bool_)) else float(vd)
                if math.isfinite(vd) and abs(vd - g) <= 1e-12 * abs(g) + 1e-300:
                    continue
            except Exception:
                pass
            # the source expression itself in 50-digit arithmetic: if that disagrees with CasADi's double result, rounding of
            # an intermediate decides the value at this point (exact ties of fmod / floor / comparisons): not a conversion error
            if True:
                try:
                    near_ = []
                    exact = mp_eval_tree(t[1][i][j] if t[0] == "mat" else t, case["point"], near=near_)
                    if isinstance(exact, complex) or not math.isfinite(exact) or abs(exact - g) > 1e-9 * abs(g) + floor:
                        continue
                    if near_:
                        continue  # a jump of fmod / remainder / floor / a comparison is missed by less than 1e-9 (not hit exactly)
                except Exception:
                    continue
            # discount ill-conditioned points (value jumps under a 1e-12 perturbation of the inputs)
            pert = call([case["point"][n] * (1 + 1e-12) + 1e-13 for n in names])[i, j]
            pert2 = call([case["point"][n] * (1 - 1e-12) - 1e-13 for n in names])[i, j]
            if not (math.isfinite(pert) and math.isfinite(pert2)) or max(abs(pert - g), abs(pert2 - g)) > 1e-6 * (1 + abs(g)):
                if not _exact_tie_ok(t):
                    continue
            raise Violation("casadi_to_sympy changed the value: CasADi %s = %.15g at %s, SymPy %s = %.15g" % (
                str(expr[i, j])[:160], g, {n: case["point"][n] for n in names}, str(e)[:160], vv), tree=t, point=case["point"])
        checked += 1
    require(checked > 0)


def mp_eval_tree(t, point, dps=50, near=None):
    """The CasADi-side tree evaluated in 50-digit arithmetic (what the expression means mathematically; selections evaluate
    only the selected branch).  Used only to decide whether CasADi's own double evaluation is trustworthy at a point: if the
    two disagree, rounding of intermediates decides the value there (fmod / floor / comparisons at an exact tie such as
    fmod(1, 1/3)) and the point is discarded."""
    import mpmath as mp

    with mp.workdps(dps):
        one, zero = mp.mpf(1), mp.mpf(0)
        b = lambda v: one if v else zero

        def _near(dist, scale_):
            # a discontinuity that is missed by less than 1e-9 relative - but not hit exactly - is decided by rounding
            if near is not None and 0 < dist < mp.mpf(10) ** -9 * (1 + abs(scale_)):
                near.append(True)

        def ev(t):
            k = t[0]
            if k == "sym":
                return mp.mpf(float(point[t[1]]))
            if k == "const":
                return mp.mpf(float(t[1]))
            if k == "if_else":
                return ev(t[2]) if ev(t[1]) != 0 else ev(t[3])
            if k == "if_else_zero":
                return ev(t[2]) if ev(t[1]) != 0 else zero
            a = [ev(c) for c in t[1:] if isinstance(c, list)]
            if k == "neg": return -a[0]
            if k == "sq": return a[0] * a[0]
            if k == "twice": return 2 * a[0]
            if k == "inv": return 1 / a[0]
            if k in ("floor", "ceil"):
                _near(abs(a[0] - mp.nint(a[0])), a[0])
            if k in ("exp", "log", "sqrt", "sin", "cos", "tan", "asin", "acos", "atan", "floor", "ceil", "erf", "sinh", "cosh", "tanh",
                     "asinh", "acosh", "atanh", "log1p"):
                return getattr(mp, k)(a[0])
            if k == "fabs": return abs(a[0])
            if k == "sign": return mp.sign(a[0])
            if k == "not": return b(a[0] == 0)
            if k == "add": return a[0] + a[1]
            if k == "sub": return a[0] - a[1]
            if k == "mul": return a[0] * a[1]
            if k == "div": return a[0] / a[1]
            if k == "pow": return a[0] ** a[1]
            if k == "cpow": return a[0] ** mp.mpf(float(t[2]))
            if k == "fmod":
                q = a[0] / a[1]
                _near(abs(q - mp.nint(q)), q)
                return a[0] - a[1] * (mp.floor(q) if q >= 0 else mp.ceil(q))
            if k == "remainder":
                q = a[0] / a[1]
                _near(abs(abs(q - mp.floor(q)) - mp.mpf(1) / 2), q)
                return a[0] - a[1] * mp.nint(q)  # nint rounds half to even
            if k == "fmin": return min(a[0], a[1])
            if k == "fmax": return max(a[0], a[1])
            if k == "atan2": return mp.atan2(a[0], a[1])
            if k == "hypot": return mp.hypot(a[0], a[1])
            if k == "copysign": return abs(a[0]) if a[1] >= 0 else -abs(a[0])
            if k in ("lt", "le", "eq", "ne", "gt", "ge"):
                _near(abs(a[0] - a[1]), a[0])
            if k == "lt": return b(a[0] < a[1])
            if k == "le": return b(a[0] <= a[1])
            if k == "eq": return b(a[0] == a[1])
            if k == "ne": return b(a[0] != a[1])
            if k == "gt": return b(a[0] > a[1])
            if k == "ge": return b(a[0] >= a[1])
            if k == "and": return b(a[0] != 0 and a[1] != 0)
            if k == "or": return b(a[0] != 0 or a[1] != 0)
            raise ValueError(k)

        v = ev(t)
        return complex(v) if isinstance(v, mp.mpc) else float(v)


def _is_nan(v):
    try:
        return v is sympy.nan or (hasattr(v, "has") and v.has(sympy.nan)) or (isinstance(v, float) and math.isnan(v))
    except Exception:
        return False


def _tree_value(t, point):
    tb = {}
    e = ca.SX(to_casadi(t, tb))
    nm = sorted(tb)
    return float(np.array(ca.Function("v", [tb[n] for n in nm], [ca.densify(e)]).call([ca.DM(point[n]) for n in nm])[0], float)[0, 0])


def _selected_paths_finite(t, point):
    k = t[0]
    if k in ("sym", "const"):
        return True
    if k in ("if_else", "if_else_zero"):
        if not _selected_paths_finite(t[1], point):
            return False
        c = _tree_value(t[1], point)
        if not math.isfinite(c):
            return False
        if c != 0:
            return _selected_paths_finite(t[2], point)
        return _selected_paths_finite(t[3], point) if k == "if_else" else True
    if not all(_selected_paths_finite(c, point) for c in t[1:] if isinstance(c, list)):
        return False
    if k == "atan2" and _tree_value(t[1], point) == 0 and _tree_value(t[2], point) == 0:
        return False  # atan2(0, 0): outside the mathematical domain (C returns 0, SymPy nan)
    v = _tree_value(t, point)
    return math.isfinite(v) and abs(v) < 1e12


C2S_MUST = {"sym", "const", "add", "sub", "mul", "div", "neg", "sq", "twice", "inv", "sqrt", "sin", "cos", "tan", "asin", "acos", "atan",
            "atan2", "fmin", "fmax", "fmod", "remainder", "lt", "le", "eq", "ne", "gt", "ge", "and", "or", "not", "if_else",
            "if_else_zero", "fabs", "sign", "floor", "mat"}


def _c2s_must_accept(t):
    if t[0] == "mat":
        return all(_c2s_must_accept(e) for row in t[1] for e in row)
    return ops_of(t) <= C2S_MUST


def _exact_tie_ok(t):
    """Discontinuous ops evaluated at exact ties are legitimate test points only when the tree is made of
    exactly representable pieces (no transcendental functions feeding the comparison/rounding)."""
    exact_ops = {"sym", "const", "add", "sub", "mul", "neg", "twice", "sq", "fabs", "sign", "floor", "ceil", "fmod",
                 "remainder", "fmin", "fmax", "lt", "le", "eq", "ne", "gt", "ge", "and", "or", "not", "if_else",
                 "if_else_zero", "copysign", "div", "mat"}
    ops = set()
    if t[0] == "mat":
        for row in t[1]:
            for e in row:
                ops |= ops_of(e)
    else:
        ops = ops_of(t)
    return ops <= exact_ops


def c2s_classify(case):
    t = case["tree"]
    ops = set()
    if t[0] == "mat":
        for row in t[1]:
            for e in row:
                ops |= ops_of(e)
        ops.add("mat")
    else:
        ops = ops_of(t)
    return sorted("op:" + o for o in ops)


def c2s_nontrivial(case):
    t = case["tree"]
    if t[0] == "mat":
        return True
    return depth(t) >= 2 and len(ops_of(t) - {"sym", "const"}) >= 2


def check_c2s_unsupported(case):
    """Ops documented as not implemented must raise, never return something else."""
    s = sym()
    x, y = ca.SX.sym("x"), ca.SX.sym("y")
    e = {"constpow": x**2.5, "constpow_irr": x**1.4142135623, "constpow_neg": x**-1.2345678, "copysign": ca.copysign(x, y),
         "log1p": ca.log1p(x), "hypot": ca.hypot(x, y)}[case["op"]]
    try:
        with cy.quiet():
            r = s.casadi_to_sympy(e)
    except Exception:
        return
    v = sympy.N(r.subs({sympy.Symbol("x"): 1.5, sympy.Symbol("y"): -2.0}))
    want = float(ca.Function("f", [x, y], [e])(1.5, -2.0))
    if abs(float(v) - want) > 1e-12 * (1 + abs(want)):
        raise Violation("casadi_to_sympy converted %s to %s, which evaluates to %s instead of %s" % (e, r, v, want))


GRID_A = [k / 2.0 for k in range(-13, 14)]
GRID_B = [1.0, -1.0, 2.0, -2.0, 0.5, -0.5, 3.0, -3.0, 1.5]
TIE_OPS = {
    "fmod": lambda x, y: ca.fmod(x, y), "remainder": lambda x, y: ca.remainder(x, y),
    "floor_div": lambda x, y: ca.floor(x / y), "ceil_div": lambda x, y: ca.ceil(x / y),
    "lt": lambda x, y: ca.if_else(x < y, 1.0, 2.0), "le": lambda x, y: ca.if_else(x <= y, 1.0, 2.0),
    "eq": lambda x, y: ca.if_else(ca.eq(x, y), 1.0, 2.0), "ne": lambda x, y: ca.if_else(ca.ne(x, y), 1.0, 2.0),
    "fmin": lambda x, y: ca.fmin(x, y), "fmax": lambda x, y: ca.fmax(x, y), "sign_diff": lambda x, y: ca.sign(x - y),
    "fabs_diff": lambda x, y: ca.fabs(x - y), "mod_chain": lambda x, y: ca.fmod(ca.remainder(x, y) + x, y),
}


def check_ties(case):
    """Finite domain, enumerated completely: a discontinuous operator applied to every (a, b) of an exact grid."""
    s = sym()
    x, y = ca.SX.sym("x"), ca.SX.sym("y")
    e = TIE_OPS[case["op"]](x, y)
    F = ca.Function("F", [x, y], [e])
    syms = {}
    try:
        with cy.quiet():
            se = s.casadi_to_sympy(e, syms)
    except Exception:
        return
    smap = {str(k): v for k, v in syms.items()}
    n = 0
    for a in GRID_A:
        for b in GRID_B:
            g = float(F(a, b))
            if not math.isfinite(g):
                continue
            v = sympy_eval(se, smap, {"x": a, "y": b})
            vv = (1.0 if v else 0.0) if isinstance(v, bool) else as_real(v)
            n += 1
            if vv is None or abs(vv - g) > 1e-12:
                raise Violation("casadi_to_sympy changed the value of %s at (x, y) = (%g, %g): CasADi %.15g, SymPy %s = %s" % (
                    e, a, b, g, str(se)[:160], vv), op=case["op"], x=a, y=b)
    case["_n"] = n


def atheris_cell(target, runs):
    """Thorough tier: coverage-guided campaign (atheris/libFuzzer) over the same property, in a subprocess."""
    import subprocess, tempfile, shutil, re as _re
    from vlib.harness import VERIF

    def check(case):
        deps = os.path.join(VERIF, ".deps")
        if not os.path.isdir(os.path.join(deps, "atheris")):
            r = subprocess.run(["/venv/bin/pip", "install", "-q", "--no-index", "--find-links", "/opt/veriftools/wheels", "--target", deps,
                                "atheris"], capture_output=True, text=True)
            if r.returncode != 0:
                require(False)  # atheris not installable here: campaign skipped (counted as discarded)
        out = tempfile.mkdtemp(prefix="c19fz_")
        try:
            env = dict(os.environ, PYTHONHASHSEED="0")
            r = subprocess.run(["/venv/bin/python", os.path.join(VERIF, "tools", "fuzz_c19.py"), target, "--runs", str(case["runs"]),
                                "--seed", str(case["seed"]), "--out", out], capture_output=True, text=True, env=env, timeout=3600)
            vp = os.path.join(out, "violation.json")
            cnt = {}
            if os.path.exists(os.path.join(out, "counters.json")):
                cnt = json.load(open(os.path.join(out, "counters.json")))
            m_ = _re.findall(r"cov: (\d+) ft: (\d+)", r.stderr)
            stats = {"execs": cnt.get("execs"), "checked": cnt.get("checked"), "discarded": cnt.get("discarded"),
                             "final_cov_edges": int(m_[-1][0]) if m_ else None, "final_features": int(m_[-1][1]) if m_ else None,
                             "runs_requested": case["runs"], "libfuzzer_seed": case["seed"]}
            from vlib import harness as _h
            os.makedirs(os.path.join(_h.OUT, "evidence"), exist_ok=True)
            json.dump(stats, open(os.path.join(_h.OUT, "evidence", ".c19_atheris_%s.json" % target), "w"))
            if os.path.exists(vp):
                v = json.load(open(vp))
                raise Violation("atheris campaign: " + v["message"], fuzz_case=v["case"])
            if r.returncode != 0:
                raise Violation("atheris campaign on %s ended with exit status %d: %s" % (target, r.returncode, (r.stderr or "")[-400:]))
        finally:
            shutil.rmtree(out, ignore_errors=True)

    return Cell("%s/atheris" % target, st.integers(1, 2**30).map(lambda s_: {"runs": runs, "seed": s_}), check, lambda c: True, None,
                quick=0, thorough=1, shrink=False, shards_thorough=1, weight=1e6, case_limit=4 * 3600)


def _atheris_stats():
    from vlib import harness as _h
    out = {}
    for t in ("s2c", "c2s"):
        f = os.path.join(_h.OUT, "evidence", ".c19_atheris_%s.json" % t)
        if os.path.exists(f):
            out[t] = json.load(open(f))
            os.remove(f)
    return {"atheris_campaigns": out} if out else {}


import os  # noqa: E402
import json  # noqa: E402


def build(tier):
    req_s2c = ["op:" + o for o in ("reuse", "add", "mul", "ipow", "sqrtp", "rpow", "fpow", "sin", "cos", "tan", "atan", "user", "float", "rat", "int")]
    req_c2s = ["op:" + o for o in NUM1 + NUM2 + ["cpow", "if_else", "if_else_zero", "lt", "le", "eq", "ne", "and", "or", "not"]]
    cells = [
        Cell("s2c/value", dict([("mixed", s2c_case())] + [(o, s2c_case(op=o)) for o in S2C_OPS]), lambda c: check_s2c(c, True),
             s2c_nontrivial, s2c_classify, quick=700, thorough=20000, case_limit=120,
             build=lambda: sym(), shrink=True),
        Cell("s2c/matrix", s2c_case(matrix=True), lambda c: check_s2c(c, True), s2c_nontrivial, s2c_classify, quick=150, thorough=4000, case_limit=120),
        Cell("s2c/raises_or_equal", dict([("mixed", s2c_case(unsupported=True))]
                                         + [(o, s2c_case(unsupported_op=o)) for o in SFUN1 + SFUN2 + ["piecewise", "pi", "dummy"]]),
             lambda c: check_s2c(c, False),
             lambda c: bool(ops_of(c["tree"]) & {"exp", "abs", "max", "piecewise", "mod", "pi", "log", "sfun"}),
             s2c_classify, quick=800, thorough=12000, case_limit=120),
        Cell("s2c/symtab", symtab_case(), check_symtab, lambda c: any(cc["cse"] for cc in c["calls"]),
             lambda c: ["cse-calls:%d" % sum(1 for cc in c["calls"] if cc["cse"])], quick=250, thorough=6000, case_limit=120),
        Cell("c2s/value", dict([("mixed", c2s_case("num"))] + [(o, c2s_case("num", op=o)) for o in C2S_OPS]
                                + [("sel_sum/%d" % i, c2s_case("num", op="sel_sum")) for i in (2, 3, 4)]
                                + [("guard/%d" % i, c2s_case("num", op="guard")) for i in (2, 3)]), check_c2s, c2s_nontrivial,
             c2s_classify, quick=1100, thorough=30000, case_limit=120),
        Cell("c2s/boolean", c2s_case("bool"), check_c2s, c2s_nontrivial, c2s_classify, quick=300, thorough=8000, case_limit=120),
        Cell("c2s/matrix", c2s_case("mat"), check_c2s, c2s_nontrivial, c2s_classify, quick=150, thorough=4000, case_limit=120),
        Cell("c2s/ties_exhaustive", st.sampled_from(sorted(TIE_OPS)).map(lambda o: {"op": o}), check_ties, lambda c: True,
             lambda c: ["op:" + c["op"]], quick=0, thorough=0, shrink=False, examples=[{"op": o} for o in sorted(TIE_OPS)]),
        atheris_cell("s2c", 20000),
        atheris_cell("c2s", 20000),
        Cell("c2s/unsupported", st.sampled_from(["constpow", "constpow_irr", "constpow_neg", "copysign", "log1p", "hypot"]).map(lambda o: {"op": o}),
             check_c2s_unsupported, lambda c: True, lambda c: [c["op"]], quick=24, thorough=24, shrink=False),
    ]
    return {
        "cells": cells,
        "rule": RULE,
        "assumptions": [
            "reference values: SymPy evalf at 30 digits; user functions f1, f2, f3 are given to the converter as CasADi "
            "callables and expanded by their definitions on the SymPy side",
            "points where the reference is non-real, non-finite or ill-conditioned (value moves by > 1e-6 relative under a "
            "1e-12 input perturbation) are skipped and counted as discarded; exact ties of discontinuous operators are kept "
            "when the tree consists of exactly representable operations",
            "any exception raised by a converter on a construct outside its supported list counts as 'raises an error'",
            "fractional powers are generated on bases of the form e^2 + 1 (positive), sqrt likewise",
        ],
        "require_classes": {"s2c/value": req_s2c, "c2s/value": req_c2s},
        "extra_coverage": _atheris_stats,
        "matchers": {},
    }
