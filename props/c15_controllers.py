"""C15 — controller laws respect their saturations and vanish exactly at zero error."""
from __future__ import annotations

import math

import numpy as np
from hypothesis import strategies as st

from vlib import cy, gens, ref
from vlib.harness import Cell, Violation, require
from props import common_lie as L

ca = cy.ca
PI = math.pi
RULE = (
    "Cases: (histories) operation sequences of 1..60 steps fed back through the controller memory exactly as a caller does "
    "— rate PID (i0, e0, de0) with generated gains/limits and dt in [1e-4, 0.1], f_cut in [0.1, 1e3]; position loop (z_i); "
    "velocity-mode input (psi_sp, pw_sp) with operations step / reset / vehicle-jump and initial yaw set-points incl. the "
    "neighbourhood of +-pi; (inputs) stick vectors in [-1, 1]^4 incl. corners, attitude pairs (q, q_r) with relative angle "
    "stratified over [0, pi - 1e-2] and quaternions of either sign incl. identical rotations with opposite sign, SE_2(3) "
    "pairs. Oracles: the stated bounds as invariants after every step; linear superposition; the harness's principal "
    "rotation vector of R(q)^T R(q_r), left Jacobian from the series sum_k ad^k/(k+1)!, scipy expm. Non-trivial: sequences "
    "in which a saturation is active at least once and inactive at least once; attitude pairs with relative angle > 0.1; "
    "distinct = hash of (cell, case)."
)
_f = {}


def mod(name):
    import os
    os.environ.setdefault("MPLBACKEND", "Agg")
    with cy.quiet():
        if name == "rdd2":
            import cyecca.models.rdd2 as m
        else:
            import cyecca.models.rdd2_loglinear as m
    return m


def fn(key):
    if key not in _f:
        m = mod("rdd2")
        ml = mod("ll")
        with cy.quiet():
            table = {
                "rate": lambda: m.derive_attitude_rate_control()["attitude_rate_control"],
                "pos": lambda: m.derive_position_control()["position_control"],
                "vel": lambda: m.derive_input_velocity()["input_velocity"],
                "acro": lambda: m.derive_input_acro()["input_acro"],
                "level": lambda: m.derive_input_auto_level()["input_auto_level"],
                "att": lambda: m.derive_attitude_control()["attitude_control"],
                "so3att": lambda: ml.derive_so3_attitude_control()["so3_attitude_control"],
                "se23err": lambda: ml.derive_se23_error()["se23_error"],
                "se23att": lambda: ml.derive_outerloop_control()["se23_attitude_control"],
                "se23pos": lambda: ml.derive_outerloop_control()["se23_position_control"],
                "alloc": lambda: m.derive_control_allocation()["f_alloc"],
            }
            _f[key] = table[key]()
    return _f[key]


def call(key, *args):
    r = fn(key).call([ca.DM(np.asarray(a, float)) for a in args])
    return [np.array(x, float).reshape(-1) if 1 in np.array(x).shape or np.array(x).size == 1 else np.array(x, float) for x in r]


v3 = lambda lo, hi: st.lists(gens.fl(lo, hi), min_size=3, max_size=3)
stick = st.one_of(gens.fl(-1.0, 1.0), st.sampled_from([-1.0, 1.0, 0.0, 0.5, -0.5]))
sticks4 = st.lists(stick, min_size=4, max_size=4)


# ---- rate PID history -----------------------------------------------------------------
@st.composite
def rate_seq(draw):
    g = {"kp": draw(v3(0.0, 2.0)), "ki": draw(v3(0.0, 1.0)), "kd": draw(v3(0.0, 0.1)), "i_max": draw(v3(1e-3, 2.0)),
         "f_cut": 10.0 ** draw(gens.fl(-1.0, 3.0))}
    init = {"i0": draw(v3(-5.0, 5.0)), "e0": draw(v3(-5.0, 5.0)), "de0": draw(v3(-50.0, 50.0))}
    n = draw(st.integers(1, 60))
    sc = draw(st.sampled_from([0.01, 0.3, 3.0, 30.0]))
    steps = [{"omega": draw(v3(-1.0, 1.0)), "omega_r": [x * sc for x in draw(v3(-1.0, 1.0))],
              "dt": 10.0 ** draw(gens.fl(-4.0, -1.0))} for _ in range(n)]
    if draw(st.booleans()):  # sustained error: drives the integrator into its clamp and back
        sg = draw(st.sampled_from([1.0, -1.0]))
        k = draw(st.integers(0, n))
        for j, s_ in enumerate(steps):
            s_["omega_r"] = [sg * sc * (1 if j < k else -1)] * 3
    return {"g": g, "init": init, "steps": steps}


def rate_run(case):
    g = case["g"]
    i0, e0, de0 = (np.array(case["init"][k], float) for k in ("i0", "e0", "de0"))
    sat_on = sat_off = 0
    imax = np.array(g["i_max"], float)
    for k, s_ in enumerate(case["steps"]):
        M, i1, e1, de1, alpha = call("rate", g["kp"], g["ki"], g["kd"], g["f_cut"], g["i_max"], s_["omega"], s_["omega_r"], i0, e0, de0, s_["dt"])
        alpha = float(alpha[0])
        for name, v in (("M", M), ("i1", i1), ("e1", e1), ("de1", de1)):
            if not np.all(np.isfinite(v)):
                raise Violation("rate controller step %d: non-finite %s" % (k, name), **case)
        if np.any(np.abs(i1) > imax):
            raise Violation("rate controller step %d: integrator %s leaves +-i_max %s" % (k, i1.tolist(), imax.tolist()), **case)
        if not (0.0 < alpha < 1.0):
            raise Violation("rate controller step %d: derivative filter coefficient alpha = %r not strictly inside (0, 1)" % (k, alpha), **case)
        e_w = np.array(s_["omega_r"]) - np.array(s_["omega"])
        L.close(e1, e_w, "rate controller: e1 vs omega_r - omega", atol=1e-12, rtol=1e-12, **case)
        a_w = 2 * PI * s_["dt"] * g["f_cut"] / (2 * PI * s_["dt"] * g["f_cut"] + 1)
        de_w = a_w * ((e_w - e0) / s_["dt"]) + (1 - a_w) * de0
        L.close(np.array([alpha]), np.array([a_w]), "rate controller: alpha vs 2 pi dt f/(2 pi dt f + 1)", atol=1e-14, rtol=1e-12, **case)
        L.close(de1, de_w, "rate controller: de1 vs low-passed derivative", atol=1e-9, rtol=1e-9, scale=float(np.max(np.abs(de_w))) + 1, **case)
        i_w = np.clip(i0 + e_w * s_["dt"], -imax, imax)
        L.close(i1, i_w, "rate controller: i1 vs clamp(i0 + e dt)", atol=1e-12, rtol=1e-12, **case)
        M_w = np.array(g["kp"]) * e_w + np.array(g["ki"]) * i_w + np.array(g["kd"]) * de_w
        L.close(M, M_w, "rate controller: M vs kp e + ki i + kd de", atol=1e-9, rtol=1e-9, scale=float(np.max(np.abs(M_w))) + 1, **case)
        if np.any(np.abs(i0 + e_w * s_["dt"]) > imax):
            sat_on += 1
        else:
            sat_off += 1
        i0, e0, de0 = i1, e1, de1
    return sat_on, sat_off


def rate_nt(case):
    try:
        on, off = rate_run(case)
    except Violation:
        return True
    return on > 0 and off > 0


# ---- position loop --------------------------------------------------------------------
@st.composite
def pos_seq(draw):
    n = draw(st.integers(1, 30))
    sc = draw(st.sampled_from([0.01, 0.3, 3.0, 30.0]))
    steps = []
    for _ in range(n):
        steps.append({"pt": [x * sc for x in draw(v3(-1.0, 1.0))], "vt": draw(v3(-2.0, 2.0)), "at": [x * draw(st.sampled_from([0.0, 1.0, 5.0])) for x in draw(v3(-1.0, 1.0))],
                      "p": [x * sc for x in draw(v3(-1.0, 1.0))], "v": draw(v3(-3.0, 3.0)), "yaw": draw(gens.fl(-PI, PI)),
                      "qsign": int(draw(st.sampled_from([1, -1]))), "dt": 10.0 ** draw(gens.fl(-3.0, -1.0))})
    return {"trim": draw(st.sampled_from([0.0, 10.0, 21.952, 30.0])) if draw(st.booleans()) else draw(gens.fl(0.0, 40.0)),
            "z_i": draw(gens.fl(-10.0, 10.0)), "steps": steps}


def pos_run(case):
    m = mod("rdd2")
    lim = 0.3 * m.m * m.g
    z_i = case["z_i"]
    on = off = 0
    for k, s_ in enumerate(case["steps"]):
        qc = ref.quat_from_axis_angle([0, 0, 1.0], s_["yaw"], float(s_["qsign"]))
        nT, qr, z2 = call("pos", case["trim"], s_["pt"], s_["vt"], s_["at"], qc, s_["p"], s_["v"], z_i, s_["dt"])
        nT, z2 = float(nT[0]), float(z2[0])
        if not (math.isfinite(nT) and np.all(np.isfinite(qr)) and math.isfinite(z2)):
            raise Violation("position controller step %d: non-finite output" % k, **case)
        if abs(z2) > m.z_integral_max + 1e-15:
            raise Violation("position controller step %d: height integrator %g leaves its limit %g" % (k, z2, m.z_integral_max), **case)
        R = ref.quat_to_R(qr / np.linalg.norm(qr))
        # (degenerate heading/thrust branches belong to C14; below the 1e-3 N thrust threshold the attitude is the documented
        # vertical fallback, so the force direction cannot be recovered from it)
        if ref.is_rotation(ref.quat_to_R(qr), 1e-6) and nT > 1.01e-3:
            fb = nT * R[:, 2] - (case["trim"] + m.ki_z * z_i) * np.array([0, 0, 1.0])
            nfb = float(np.linalg.norm(fb))
            if nfb > lim * (1 + 1e-9) + 1e-9:
                raise Violation("position controller step %d: feedback term %.6f N exceeds 30%% of weight (%.6f N)" % (k, nfb, lim), **case)
            e_p = np.array(s_["p"]) - np.array(s_["pt"])
            e_v = np.array(s_["v"]) - np.array(s_["vt"])
            raw = -m.kp_pos * e_p - m.kp_vel * e_v + m.m * np.array(s_["at"])
            if float(np.linalg.norm(raw)) > lim:
                on += 1
                L.close(np.array([nfb]), np.array([lim]), "saturated feedback magnitude vs 0.3 m g", atol=1e-6, rtol=1e-9, **case)
            else:
                off += 1
                L.close(fb, raw, "unsaturated feedback term vs -kp e_p - kv e_v + m a_ff", atol=1e-6, rtol=1e-9, **case)
        z_i = z2
    return on, off


def pos_nt(case):
    try:
        on, off = pos_run(case)
    except Violation:
        return True
    return on > 0 and off > 0


# ---- SE_2(3) outer loop: same bounds ------------------------------------------------------
@st.composite
def se23pos_seq(draw):
    n = draw(st.integers(1, 20))
    steps = [{"zeta": draw(v3(-3.0, 3.0)) + draw(v3(-3.0, 3.0)) + [x * draw(st.sampled_from([0.0, 0.3, 1.5])) for x in draw(v3(-1.0, 1.0))],
              "at": [x * draw(st.sampled_from([0.0, 2.0])) for x in draw(v3(-1.0, 1.0))], "yaw": draw(gens.fl(-PI, PI)),
              "dt": 10.0 ** draw(gens.fl(-3.0, -1.0))} for _ in range(n)]
    return {"trim": draw(st.sampled_from([0.0, 21.952, 30.0])), "kp": draw(v3(0.5, 5.0)), "z_i": draw(gens.fl(-10.0, 10.0)), "steps": steps}


def se23pos_run(case):
    ml = mod("ll")
    lim = 0.3 * ml.m * ml.g
    z_i = case["z_i"]
    for k, s_ in enumerate(case["steps"]):
        qc = ref.quat_from_axis_angle([0, 0, 1.0], s_["yaw"], 1.0)
        nT, qr, z2 = call("se23pos", case["trim"], case["kp"], s_["zeta"], s_["at"], qc, z_i, s_["dt"])
        nT, z2 = float(nT[0]), float(z2[0])
        if not (math.isfinite(nT) and np.all(np.isfinite(qr)) and math.isfinite(z2)):
            raise Violation("se23_position_control step %d: non-finite output" % k, **case)
        if abs(z2) > ml.z_integral_max + 1e-15:
            raise Violation("se23_position_control step %d: height integrator %g leaves its limit %g" % (k, z2, ml.z_integral_max), **case)
        if ref.is_rotation(ref.quat_to_R(qr), 1e-6):
            R = ref.quat_to_R(qr / np.linalg.norm(qr))
            fb = nT * R[:, 2] - (case["trim"] + ml.ki_z * z_i) * np.array([0, 0, 1.0])
            if float(np.linalg.norm(fb)) > lim * (1 + 1e-9) + 1e-9:
                raise Violation("se23_position_control step %d: feedback term %.6f N exceeds 30%% of weight (%.6f N)" % (k, np.linalg.norm(fb), lim), **case)
        z_i = z2


# ---- velocity-mode input history ------------------------------------------------------
@st.composite
def vel_seq(draw):
    m0 = draw(st.integers(0, 5))
    if m0 == 0:
        psi0 = draw(st.sampled_from([PI, -PI, PI - 1e-3, -PI + 1e-3, -3.1, 3.1, 0.0]))
    else:
        psi0 = draw(gens.fl(-PI, PI))
    n = draw(st.integers(1, 60))
    hold = draw(st.booleans())
    rud = draw(st.sampled_from([-1.0, 1.0]))
    steps = []
    for _ in range(n):
        op = draw(st.sampled_from(["step", "step", "step", "step", "reset", "jump"]))
        a = draw(sticks4)
        if hold:
            a[3] = rud
        steps.append({"op": op, "aetr": a, "dt": draw(st.sampled_from([0.01, 0.02, 0.1, 0.05])) if hold else 10.0 ** draw(gens.fl(-3.0, -1.0)),
                      "move": draw(v3(-0.05, 0.05)), "jump": [x * 10 for x in draw(v3(-1.0, 1.0))]})
    return {"psi0": psi0, "pw0": draw(v3(-5.0, 5.0)), "sp_off": draw(v3(-1.0, 1.0)), "steps": steps}


def vel_run(case):
    psi = case["psi0"]
    pw = np.array(case["pw0"], float)
    sp = pw + np.array(case["sp_off"], float)
    leash_on = leash_off = 0
    for k, s_ in enumerate(case["steps"]):
        if s_["op"] == "jump":
            pw = pw + np.array(s_["jump"])
        else:
            pw = pw + np.array(s_["move"])
        reset = 1.0 if s_["op"] == "reset" else 0.0
        psi1, psiv, sp1, vw, aw, q_sp = call("vel", s_["dt"], psi, sp, pw, s_["aetr"], reset)
        psi1 = float(psi1[0])
        if not (math.isfinite(psi1) and np.all(np.isfinite(sp1)) and np.all(np.isfinite(vw)) and np.all(np.isfinite(q_sp))):
            raise Violation("input_velocity step %d: non-finite output" % k, **case)
        if abs(psi1) > PI + 1e-12:
            raise Violation("input_velocity step %d: yaw set-point %.9f leaves [-pi, pi]" % (k, psi1), **case)
        pv = float(np.asarray(psiv).reshape(-1)[0])
        if not math.isfinite(pv) or abs(pv - 60 * PI / 180 * s_["aetr"][3]) > 1e-12:
            raise Violation("input_velocity step %d: yaw-rate command %.12g is not the linear, bounded stick map 60 deg/s * rudder = %.12g"
                            % (k, pv, 60 * PI / 180 * s_["aetr"][3]), **case)
        want = psi + 60 * PI / 180 * s_["aetr"][3] * s_["dt"]
        d = (psi1 - want + PI) % (2 * PI) - PI
        if abs(d) > 1e-9:
            raise Violation("input_velocity step %d: yaw set-point %.9f is not psi + rate dt = %.9f modulo 2 pi" % (k, psi1, want), **case)
        dist = float(np.linalg.norm(sp1 - pw))
        if dist > 2.0 * (1 + 1e-12):
            raise Violation("input_velocity step %d: position set-point %.6f m from the vehicle (> 2 m)" % (k, dist), **case)
        if reset and np.max(np.abs(sp1 - pw)) > 1e-12 * (1 + np.max(np.abs(pw))):
            raise Violation("input_velocity step %d: reset did not put the set-point on the vehicle (offset %s)" % (k, (sp1 - pw).tolist()), **case)
        # velocity command: linear in the sticks, rotated by the yaw set-point, bounded
        vb = np.array([2 * s_["aetr"][1], -2 * s_["aetr"][0], s_["aetr"][2]])
        L.close(vw, ref.Rz(psi1) @ vb, "input_velocity: world velocity command vs Rz(psi_sp) (2 elev, -2 ail, thr)", atol=1e-9, rtol=0, **case)
        L.close(ref.quat_to_R(q_sp), ref.Rz(psi1), "input_velocity: q_sp vs pure yaw psi_sp", atol=1e-9, rtol=0, **case)
        if not reset:
            free = sp + ref.Rz(psi1) @ vb * s_["dt"]
            if float(np.linalg.norm(free - pw)) > 2.0:
                leash_on += 1
            else:
                leash_off += 1
                L.close(sp1, free, "input_velocity: unleashed set-point vs pw_sp + v dt", atol=1e-9, rtol=0, scale=1 + float(np.max(np.abs(free))), **case)
        psi, sp = psi1, sp1
    return leash_on, leash_off


def vel_nt(case):
    try:
        on, off = vel_run(case)
    except Violation:
        return True
    return on > 0 and off > 0


def vel_classify(case):
    out = set()
    psi = case["psi0"]
    for s_ in case["steps"]:
        w = psi + PI / 3 * s_["aetr"][3] * s_["dt"]
        if w > PI:
            out.add("wrap+pi")
        if w < -PI:
            out.add("wrap-pi")
        psi = (w + PI) % (2 * PI) - PI
        out.add("op:" + s_["op"])
    return sorted(out) or ["none"]


# ---- sticks -------------------------------------------------------------------------------
@st.composite
def stick_case(draw):
    return {"a": draw(sticks4), "b": [x * 0.5 for x in draw(sticks4)], "k": draw(gens.fl(-1.0, 1.0)),
            "trim": draw(gens.fl(0.0, 40.0)), "delta": draw(gens.fl(0.0, 30.0)),
            "rot": draw(gens.rotation(strata=("zero", "tiny", "mid", "mid", "mid", "nearpi", "pi")))}


def check_sticks(case):
    m = mod("rdd2")
    d2r = PI / 180
    a, b = np.array(case["a"]), np.array(case["b"]) * 0.999
    ab = np.clip(a * 0.5 + b, -1, 1)
    f = lambda s_: call("acro", case["trim"], case["delta"], s_)
    w0, t0 = f(np.zeros(4))
    wa, ta = f(a)
    wb, tb = f(b)
    ws, ts = f(a + b)
    L.close(ws - w0, (wa - w0) + (wb - w0), "input_acro: rate command is not linear in the sticks (superposition)", atol=1e-12, rtol=0, **case)
    L.close(ts - t0, (ta - t0) + (tb - t0), "input_acro: thrust command is not linear in the sticks", atol=1e-10, rtol=0, **case)
    wk, tk = f(case["k"] * a)
    L.close(wk - w0, case["k"] * (wa - w0), "input_acro: rate command is not homogeneous in the sticks", atol=1e-12, rtol=0, **case)
    lim = np.array([m.rollpitch_rate_max, m.rollpitch_rate_max, m.yaw_rate_max]) * d2r
    if np.any(np.abs(wa) > lim * (1 + 1e-12)):
        raise Violation("input_acro: rate command %s exceeds the rate limits %s for sticks in [-1, 1]" % (wa.tolist(), lim.tolist()), **case)
    L.close(wa, lim * np.array([a[0], a[1], a[3]]), "input_acro: rate command vs rate_max * stick", atol=1e-12, rtol=0, **case)
    L.close(ta, np.array([a[2] * case["delta"] + case["trim"]]), "input_acro: thrust vs trim + stick * delta", atol=1e-10, rtol=0, **case)
    # auto level: roll/pitch set-points are 30 deg * stick, yaw = measured yaw + 60 deg * rudder
    R = gens.rot_R(case["rot"])
    eul = ref.R_to_euler321(R)
    require(not gens.euler_in_band(eul[1], 1e-3, 1e-3))
    q = ref.quat_from_axis_angle(gens.unit_axis(case["rot"]["axis"]), case["rot"]["angle"], float(case["rot"]["sign"]))
    q_r, thr = call("level", case["trim"], case["delta"], a, q)
    if abs(np.linalg.norm(q_r) - 1) > 1e-9:
        raise Violation("input_auto_level: set-point quaternion norm %.12f" % np.linalg.norm(q_r), **case)
    want = ref.euler321_to_R([eul[0] + m.yaw_rate_max * d2r * a[3], m.rollpitch_max * d2r * a[1], m.rollpitch_max * d2r * a[0]])
    L.close(ref.quat_to_R(q_r), want, "input_auto_level: set-point vs yaw + 60deg*rudder, pitch 30deg*elev, roll 30deg*ail", atol=1e-9, rtol=0, **case)
    L.close(thr, np.array([a[2] * case["delta"] + case["trim"]]), "input_auto_level: thrust vs trim + stick * delta", atol=1e-10, rtol=0, **case)


# ---- attitude error laws ------------------------------------------------------------------
@st.composite
def att_case(draw):
    rel = draw(gens.rotation(strata=("zero", "tiny", "switch", "mid", "mid", "mid"), max_angle=PI - 1e-2, shadow=(False,)))
    if draw(st.integers(0, 9)) == 0:
        rel["angle"] = PI - 1e-2 - draw(gens.fl(0.0, 0.2))
    return {"q": draw(gens.rotation(strata=("zero", "mid", "mid", "nearpi", "pi", "beyond"))), "rel": rel,
            "sign_r": int(draw(st.sampled_from([1, -1]))), "kp": draw(v3(0.1, 10.0)),
            "p": draw(v3(-5.0, 5.0)), "v": draw(v3(-3.0, 3.0)), "dp": draw(v3(-2.0, 2.0)), "dv": draw(v3(-2.0, 2.0))}


def Jl_so3(e):
    th = float(np.linalg.norm(e))
    K = ref.hat3(e)
    if th < 1e-6:
        return np.eye(3) + 0.5 * K + K @ K / 6
    return np.eye(3) + (1 - math.cos(th)) / th**2 * K + (th - math.sin(th)) / th**3 * K @ K


def Jl_series(ad):
    J = np.eye(ad.shape[0])
    term = np.eye(ad.shape[0])
    for k in range(1, 60):
        term = term @ ad / (k + 1)
        J = J + term
        if np.max(np.abs(term)) < 1e-18:
            break
    return J


def check_att(case):
    ax, th = gens.unit_axis(case["q"]["axis"]), case["q"]["angle"]
    q = ref.quat_from_axis_angle(ax, th, float(case["q"]["sign"]))
    Rq = ref.rodrigues(ax, th)
    e_ref = gens.unit_axis(case["rel"]["axis"]) * case["rel"]["angle"]
    Rr = Rq @ ref.rotvec_to_R(e_ref)
    # reference quaternion by composition in the harness, with a drawn overall sign
    q_rel = ref.quat_from_axis_angle(gens.unit_axis(case["rel"]["axis"]), case["rel"]["angle"], 1.0)
    q_r = case["sign_r"] * ref.quat_mul(ref.quat_from_axis_angle(ax, th, 1.0), q_rel)
    kp = np.array(case["kp"])
    cond = 1.0 / max(PI - case["rel"]["angle"], 1e-2)
    (om,) = call("att", kp, q, q_r)
    L.close(om, kp * e_ref, "attitude_control vs kp * rotation vector of R(q)^T R(q_r)", atol=1e-9 * cond * float(np.max(kp)), rtol=0, **case)
    # applying the commanded rotation (gains = 1) to the measured attitude reaches the reference
    (e1,) = call("att", np.ones(3), q, q_r)
    L.close(Rq @ ref.rotvec_to_R(e1), Rr, "R(q) Exp(e) vs R(q_r) (commanded rotation reaches the reference)", atol=1e-9 * cond, rtol=0, **case)
    (om2,) = call("so3att", kp, q, q_r)
    L.close(om2, Jl_so3(e_ref) @ (kp * e_ref), "so3_attitude_control vs J_l(e) diag(kp) e", atol=1e-9 * cond * float(np.max(kp)) * 2, rtol=0, **case)
    # SE_2(3) error
    gi = cy.registry()["SE23Quat"]
    p, v = np.array(case["p"]), np.array(case["v"])
    pr, vr = p + np.array(case["dp"]), v + np.array(case["dv"])
    (zeta,) = call("se23err", p, v, q, pr, vr, q_r)
    X = np.eye(5); X[:3, :3] = Rq; X[:3, 3] = v; X[:3, 4] = p
    Xr = np.eye(5); Xr[:3, :3] = Rr; Xr[:3, 3] = vr; Xr[:3, 4] = pr
    want_eta = np.linalg.inv(X) @ Xr
    L.close(ref.expm(L.hat(gi, zeta)), want_eta, "se23_error: expm(hat(zeta)) vs M(X)^-1 M(X_r)", atol=1e-9 * cond * (1 + float(np.max(np.abs(want_eta)))), rtol=0, **case)
    if float(np.linalg.norm(zeta[6:9])) > PI + 1e-9:
        raise Violation("se23_error: rotation part of zeta has norm %.9f > pi" % np.linalg.norm(zeta[6:9]), **case)
    m = mod("ll")
    K = np.diag([m.kp_pos] * 3 + [m.kp_vel] * 3 + list(kp))
    # ad_zeta from the algebra's structure (commutators of the hat basis)
    E = L.basis_matrices(gi)
    ad = np.zeros((9, 9))
    Z = L.hat(gi, zeta)
    for j in range(9):
        ad[:, j], _ = L.vee(gi, Z @ E[j] - E[j] @ Z)
    want_u = (Jl_series(ad) @ K @ zeta)[6:9]
    (u,) = call("se23att", kp, zeta)
    L.close(u, want_u, "se23_attitude_control vs rotational rows of J_l(zeta) K zeta", atol=1e-8 * (1 + float(np.max(np.abs(want_u)))), rtol=0, **case)


_S = math.sqrt(0.5)
EXACT_Q = [(1.0, 0, 0, 0), (0, 1.0, 0, 0), (0, 0, 1.0, 0), (0, 0, 0, 1.0), (_S, _S, 0, 0), (_S, -_S, 0, 0), (_S, 0, _S, 0), (_S, 0, -_S, 0),
           (_S, 0, 0, _S), (_S, 0, 0, -_S), (0, _S, _S, 0), (0, _S, -_S, 0), (0.5, 0.5, 0.5, 0.5), (0.5, -0.5, 0.5, -0.5), (0.5, 0.5, -0.5, -0.5),
           (0, 0.6, 0.8, 0), (0, 0.8, -0.6, 0), (0.6, 0, 0, 0.8), (0.8, 0, 0, -0.6), (0.6, 0.8, 0, 0), (0.8, -0.6, 0, 0)]
HALF_TURN_PAIRS = [(a, b) for a in EXACT_Q for b in EXACT_Q if a != b and sum(x * y for x, y in zip(a, b)) == 0.0]


@st.composite
def half_turn_case(draw):
    i = draw(st.integers(0, len(HALF_TURN_PAIRS) - 1))
    return {"pair": i, "sq": int(draw(st.sampled_from([1, -1]))), "sr": int(draw(st.sampled_from([1, -1]))), "kp": draw(v3(0.1, 10.0)),
            "p": draw(v3(-5.0, 5.0)), "v": draw(v3(-3.0, 3.0)), "dp": draw(v3(-2.0, 2.0)), "dv": draw(v3(-2.0, 2.0))}


def check_half_turn(case):
    """Attitude errors of exactly half a turn between exactly representable quaternions (q . q_r == 0.0): the error rotation
    vector has length pi with either sign of the axis; every law must stay finite and its commanded rotation must reach q_r."""
    require(0 <= case["pair"] < len(HALF_TURN_PAIRS))
    a, b = HALF_TURN_PAIRS[case["pair"]]
    q, q_r = case["sq"] * np.array(a, float), case["sr"] * np.array(b, float)
    Rq, Rr = ref.quat_to_R(q), ref.quat_to_R(q_r)
    (e1,) = call("att", np.ones(3), q, q_r)
    if not np.all(np.isfinite(e1)):
        raise Violation("attitude_control: non-finite command for a half-turn attitude error (q . q_r = 0 exactly)", q=q.tolist(), q_r=q_r.tolist())
    L.close(Rq @ ref.rotvec_to_R(e1), Rr, "attitude_control at a half-turn error: R(q) Exp(e) vs R(q_r)", atol=1e-7, rtol=0, q=q.tolist(), q_r=q_r.tolist())
    (om2,) = call("so3att", np.array(case["kp"]), q, q_r)
    if not np.all(np.isfinite(om2)):
        raise Violation("so3_attitude_control: non-finite command for a half-turn attitude error (q . q_r = 0 exactly)", q=q.tolist(), q_r=q_r.tolist())
    p, v = np.array(case["p"]), np.array(case["v"])
    pr, vr = p + np.array(case["dp"]), v + np.array(case["dv"])
    (zeta,) = call("se23err", p, v, q, pr, vr, q_r)
    if not np.all(np.isfinite(zeta)):
        raise Violation("se23_error: non-finite zeta for a half-turn attitude error (q . q_r = 0 exactly): %s" % zeta.tolist(), q=q.tolist(), q_r=q_r.tolist())
    gi = cy.registry()["SE23Quat"]
    X = np.eye(5); X[:3, :3] = Rq; X[:3, 3] = v; X[:3, 4] = p
    Xr = np.eye(5); Xr[:3, :3] = Rr; Xr[:3, 3] = vr; Xr[:3, 4] = pr
    want_eta = np.linalg.inv(X) @ Xr
    L.close(ref.expm(L.hat(gi, zeta)), want_eta, "se23_error at a half-turn error: expm(hat(zeta)) vs M(X)^-1 M(X_r)",
            atol=1e-6 * (1 + float(np.max(np.abs(want_eta)))), rtol=0, q=q.tolist(), q_r=q_r.tolist())
    (u,) = call("se23att", np.array(case["kp"]), zeta)
    if not np.all(np.isfinite(u)):
        raise Violation("se23_attitude_control: non-finite command for a half-turn attitude error", q=q.tolist(), q_r=q_r.tolist())


def check_att_zero(case):
    ax, th = gens.unit_axis(case["q"]["axis"]), case["q"]["angle"]
    q = ref.quat_from_axis_angle(ax, th, float(case["q"]["sign"]))
    kp = np.array(case["kp"])
    for sg in (1.0, -1.0):
        q_r = sg * q
        (om,) = call("att", kp, q, q_r)
        if not np.all(np.isfinite(om)) or np.max(np.abs(om)) > 1e-9 * np.linalg.norm(kp):
            raise Violation("attitude_control: q_r = %+d q (same rotation) but omega = %s" % (int(sg), om.tolist()), **case)
        (om2,) = call("so3att", kp, q, q_r)
        if not np.all(np.isfinite(om2)) or np.max(np.abs(om2)) > 1e-9 * np.linalg.norm(kp):
            raise Violation("so3_attitude_control: q_r = %+d q (same rotation) but omega = %s" % (int(sg), om2.tolist()), **case)
        (zeta,) = call("se23err", case["p"], case["v"], q, case["p"], case["v"], q_r)
        if not np.all(np.isfinite(zeta)) or np.max(np.abs(zeta)) > 1e-9 * (1 + np.max(np.abs(case["p"])) + np.max(np.abs(case["v"]))):
            raise Violation("se23_error: identical states (q_r = %+d q) but zeta = %s" % (int(sg), zeta.tolist()), **case)
    (u,) = call("se23att", kp, np.zeros(9))
    if np.any(u != 0):
        raise Violation("se23_attitude_control(kp, 0) = %s" % u.tolist(), **case)


def build(tier):
    cells = [
        Cell("rate_pid/history", rate_seq(), lambda c: rate_run(c), rate_nt,
             lambda c: ["len>=10" if len(c["steps"]) >= 10 else "len<10"], quick=300, thorough=6000, build=lambda: fn("rate")),
        Cell("position_loop/history", pos_seq(), lambda c: pos_run(c), pos_nt, None, quick=300, thorough=6000, build=lambda: fn("pos")),
        Cell("se23_position_loop/history", se23pos_seq(), lambda c: se23pos_run(c), lambda c: len(c["steps"]) >= 2, None, quick=200, thorough=4000,
             build=lambda: fn("se23pos")),
        Cell("input_velocity/history", vel_seq(), lambda c: vel_run(c), vel_nt, vel_classify, quick=300, thorough=6000, build=lambda: fn("vel")),
        Cell("sticks", stick_case(), check_sticks, lambda c: any(abs(x) > 0 for x in c["a"]), None, quick=500, thorough=10000,
             build=lambda: (fn("acro"), fn("level"))),
        Cell("attitude_law", att_case(), check_att, lambda c: c["rel"]["angle"] > 0.1,
             lambda c: ["rel:" + c["rel"]["stratum"], "sign_q:%d" % c["q"]["sign"], "sign_r:%d" % c["sign_r"]], quick=500, thorough=10000,
             build=lambda: (fn("att"), fn("so3att"), fn("se23err"), fn("se23att"))),
        Cell("attitude_half_turn", half_turn_case(), check_half_turn, lambda c: True, None, quick=200, thorough=2000,
             build=lambda: (fn("att"), fn("so3att"), fn("se23err"), fn("se23att"))),
        Cell("attitude_zero_error", att_case(), check_att_zero, lambda c: c["q"]["angle"] > 0.1,
             lambda c: ["sign_q:%d" % c["q"]["sign"]], quick=300, thorough=6000),
    ]
    return {
        "cells": cells,
        "rule": RULE,
        "assumptions": [
            "histories are operation lists interpreted step by step with the controller memory fed back as a caller does; the "
            "invariants are checked after every step and the whole list shrinks as one value",
            "limits used as oracles are the module's documented constants (0.3 m g, z_integral_max, rate/angle maxima, 2 m leash)",
            "attitude pairs have relative angle <= pi - 1e-2; tolerances scale with 1/(pi - angle)",
            "position-loop cases whose returned set-point is not a proper rotation (degenerate heading/thrust alignment) are left to C14",
        ],
        "require_classes": {"input_velocity/history": ["wrap+pi", "wrap-pi", "op:reset", "op:jump"]},
        "matchers": {},
    }
