"""C16 — the quadrotor model obeys rigid-body physics invariants."""
from __future__ import annotations

import math

import numpy as np
from hypothesis import strategies as st

from vlib import cy, gens, ref
from vlib.harness import Cell, Violation, require
from props import common_lie as L

ca = cy.ca
PI = math.pi
RULE = (
    "Cases: states (position with altitude > 0 — or <= 0 for the equivariance cell only —, body velocity N*10^k, unit "
    "quaternion of either sign at any angle, body rate up to 10 rad/s, rotor speeds in [0, 1500]), rotor commands in "
    "[0, 1500], and generated parameter sets (mass, diagonal inertia with Jx != Jy != Jz, per-rotor arm length, arm angle "
    "and spin direction, CT, CM, drag, time constants, g) as well as the defaults. Oracle: Newton-Euler equations and "
    "per-rotor wrench sum written in the harness with numpy. Non-trivial: non-identity attitude, unequal rotor speeds and "
    "non-default parameters; distinct = hash of (cell, inputs rounded to 9 digits)."
)

_m = {}


def model():
    if "m" not in _m:
        import os
        os.environ.setdefault("MPLBACKEND", "Agg")
        with cy.quiet():
            import cyecca.models.quadrotor as quad

            m = quad.derive_model()
        _m["m"] = m
        _m["pnames"] = [m["p"][i].name() for i in range(m["p"].shape[0])]
        _m["xnames"] = [m["x"][i].name() for i in range(m["x"].shape[0])]
        x, u, p = ca.SX.sym("x", 17), ca.SX.sym("u", 4), ca.SX.sym("p", len(_m["pnames"]))
        w3, dt = ca.SX.sym("w", 3), ca.SX.sym("dt")
        _m["f"] = ca.Function("f", [x, u, p], [ca.densify(m["f"](x, u, p))])
        _m["g_accel"] = ca.Function("ga", [x, u, p, w3, dt], [ca.densify(m["g_accel"](x, u, p, w3, dt))])
        _m["g_gyro"] = ca.Function("gg", [x, u, p, w3, dt], [ca.densify(m["g_gyro"](x, u, p, w3, dt))])
    return _m


def pvec(pd):
    mm = model()
    d = dict(mm["m"]["p_defaults"])
    d.update(pd)
    return np.array([float(d[n]) for n in mm["pnames"]])


def pdict(case):
    if case.get("defaults"):
        return dict(model()["m"]["p_defaults"])
    d = dict(model()["m"]["p_defaults"])
    d.update(case["p"])
    # physically meaningful parameter sets only (also under shrinking / rounding of a failing case)
    require(all(d[k] > 1e-9 for k in ("m", "g", "Jx", "Jy", "Jz", "CT", "tau_up", "tau_down", "rho", "S")))
    require(all(d["l_motor_%d" % i] > 1e-3 for i in range(4)))
    return d


@st.composite
def params(draw, symmetric=False, aero=None):
    p = {}
    p["tau_up"] = 10.0 ** draw(gens.fl(-3.0, -0.3))
    p["tau_down"] = 10.0 ** draw(gens.fl(-3.0, -0.3))
    p["m"] = draw(gens.fl(0.2, 20.0))
    p["g"] = draw(gens.fl(1.0, 25.0))
    p["Jx"] = 10.0 ** draw(gens.fl(-3.0, 0.0))
    p["Jy"] = 10.0 ** draw(gens.fl(-3.0, 0.0))
    p["Jz"] = 10.0 ** draw(gens.fl(-3.0, 0.0))
    p["CT"] = 10.0 ** draw(gens.fl(-7.0, -4.0))
    p["CM"] = 10.0 ** draw(gens.fl(-3.0, -1.0))
    p["rho"] = draw(gens.fl(0.5, 1.5))
    p["S"] = draw(gens.fl(0.01, 1.0))
    use_aero = draw(st.booleans()) if aero is None else aero
    p["CD0"] = draw(gens.fl(0.0, 1.0)) if use_aero else 0.0
    for k in ("Cl_p", "Cm_q", "Cn_r"):
        p[k] = -draw(gens.fl(0.0, 0.5)) if use_aero else 0.0
    if symmetric:
        l = draw(gens.fl(0.05, 1.0))
        th0 = draw(gens.fl(-PI, PI))
        # opposite rotors spin the same way, neighbours opposite; arms at 90 degrees
        order = [0, 2, 1, 3]  # positions around the circle for motors 0..3
        d0 = draw(st.sampled_from([1.0, -1.0]))
        for i in range(4):
            pos = order[i]
            p["l_motor_%d" % i] = l
            p["theta_motor_%d" % i] = th0 + pos * PI / 2
            p["dir_motor_%d" % i] = d0 if pos % 2 == 0 else -d0
    else:
        for i in range(4):
            p["l_motor_%d" % i] = draw(gens.fl(0.05, 1.0))
            p["theta_motor_%d" % i] = draw(gens.fl(-PI, PI))
            p["dir_motor_%d" % i] = draw(st.sampled_from([1.0, -1.0]))
    return p


@st.composite
def state(draw, above=True):
    alt = draw(gens.fl(0.01, 100.0)) if above else draw(gens.fl(-0.5, 0.0))
    pos = [draw(gens.fl(-100.0, 100.0)), draw(gens.fl(-100.0, 100.0)), alt]
    vel = draw(gens.vector(3, scales=(-2, -1, 0, 0, 1)))
    rot = draw(gens.rotation(strata=("zero", "tiny", "mid", "mid", "mid", "nearpi", "pi", "beyond")))
    if draw(st.integers(0, 5)) == 0:
        # nose straight up / down (inside and around the Euler gimbal band) with arbitrary roll and yaw
        delta = draw(st.sampled_from([0.0, 1e-5, 2e-4, 5e-4, 9e-4, 1.1e-3, 5e-3]))
        sg = draw(st.sampled_from([1.0, -1.0]))
        Rg = ref.euler321_to_R([draw(gens.fl(-PI, PI)), sg * (PI / 2 - delta), draw(gens.fl(-PI, PI))])
        w = ref.log_SO3(Rg)
        th = float(np.linalg.norm(w))
        rot = {"axis": [float(a) for a in (w / th)] if th > 1e-9 else [1.0, 0.0, 0.0], "angle": th, "stratum": "gimbal",
               "sign": int(draw(st.sampled_from([1, -1]))), "shadow": False}
    om = draw(gens.vector(3, scales=(-2, -1, 0, 0, 1)))
    mot = [draw(gens.fl(0.0, 1500.0)) for _ in range(4)]
    if draw(st.integers(0, 5)) == 0:
        mot = [mot[0]] * 4
    return {"pos": pos, "vel": vel, "rot": rot, "om": om, "mot": mot}


def xvec(s):
    return np.array(list(s["pos"]) + list(s["vel"]) + list(gens.encode_rot(s["rot"], "quat")) + list(s["om"]) + list(s["mot"]), float)


@st.composite
def full_case(draw, above=True, symmetric=False, aero=None):
    defaults = draw(st.integers(0, 4)) == 0 and not symmetric
    return {"s": draw(state(above)), "u": [draw(gens.fl(0.0, 1500.0)) for _ in range(4)],
            "p": {} if defaults else draw(params(symmetric, aero)), "defaults": defaults}


def nontrivial(case):
    s = case["s"]
    return s["rot"]["angle"] > 1e-2 and len(set(s["mot"])) > 1 and not case.get("defaults")


def classify(case):
    return ["defaults" if case.get("defaults") else "generated-params", "qsign:%d" % case["s"]["rot"]["sign"],
            "att:" + ("gimbal" if case["s"]["rot"]["stratum"] == "gimbal" else "other")]


def evalf(case, x=None):
    mm = model()
    x = xvec(case["s"]) if x is None else x
    p = pvec(pdict(case))
    return cy.vec(mm["f"](x, case["u"], p)), x, p


def make_cells(tier):
    cells = []

    def check_qnorm(case):
        xd, x, p = evalf(case)
        if not np.all(np.isfinite(xd)):
            raise Violation("non-finite state derivative", **case)
        q, qd = x[6:10], xd[6:10]
        sc = 1 + float(np.linalg.norm(x[10:13]))
        if abs(float(q @ qd)) > 1e-12 * sc:
            raise Violation("q . q' = %.3e != 0: quaternion norm not preserved" % float(q @ qd), **case)
        # kinematics: R' = R [w]x
        dR = (ref.quat_to_R(q + qd) - ref.quat_to_R(q - qd)) / 2
        L.close(dR, ref.quat_to_R(q) @ ref.hat3(x[10:13]), "attitude kinematics R' vs R [w]x", atol=1e-11 * sc, rtol=0, **case)
        L.close(xd[0:3], ref.quat_to_R(q) @ x[3:6], "position derivative vs R v_b", atol=1e-11 * (1 + np.linalg.norm(x[3:6])), rtol=0, **case)
        # the same state as an integrator holds it: the quaternion has drifted off the unit sphere by a small factor.
        # q' = 1/2 q (x) w is orthogonal to q for every 4-vector q, so the norm (whatever it is) is still preserved.
        for k in (1e-6, -3e-4, 1e-3):
            x2 = x.copy()
            x2[6:10] = q * (1 + k)
            xd2, _, _ = evalf(case, x2)
            d = float(x2[6:10] @ xd2[6:10])
            if not math.isfinite(d) or abs(d) > 1e-12 * sc:
                raise Violation("q . q' = %.3e != 0 for the quaternion scaled by (1 %+g) (integrator drift): its norm is not preserved" % (d, k),
                                **case)

    cells.append(Cell("qnorm_kinematics", full_case(), check_qnorm, nontrivial, classify, quick=400, thorough=8000,
                      build=lambda: model()))

    def check_wrench(case):
        xd, x, p = evalf(case)
        pd = pdict(case)
        R = ref.quat_to_R(x[6:10])
        v, om, mot = x[3:6], x[10:13], x[13:17]
        m_, g_ = pd["m"], pd["g"]
        J = np.diag([pd["Jx"], pd["Jy"], pd["Jz"]])
        V = float(np.linalg.norm(v))
        wX = v / V if V > 1e-5 else np.array([1.0, 0, 0])
        drag = -pd["CD0"] * 0.5 * pd["rho"] * V**2 * pd["S"] * wX
        F_rot = np.zeros(3)
        M_rot = np.zeros(3)
        for i in range(4):
            th = pd["CT"] * mot[i] ** 2
            r = pd["l_motor_%d" % i] * np.array([math.cos(pd["theta_motor_%d" % i]), math.sin(pd["theta_motor_%d" % i]), 0.0])
            F_rot += np.array([0, 0, th])
            M_rot += np.cross(r, np.array([0, 0, th])) - pd["CM"] * pd["dir_motor_%d" % i] * th * np.array([0, 0, 1.0])
            M_rot += np.array([pd["Cl_p"] * om[0], pd["Cm_q"] * om[1], pd["Cn_r"] * om[2]]) * pd["S"] * pd["l_motor_%d" % i]
        force = m_ * (xd[3:6] + np.cross(om, v)) - R.T @ np.array([0, 0, -m_ * g_]) - drag
        scF = m_ * (g_ + float(np.linalg.norm(np.cross(om, v)))) + float(np.linalg.norm(F_rot)) + float(np.linalg.norm(drag)) + 1e-9
        L.close(force, F_rot, "net force: m(v' + w x v) - R^T(-m g e3) - drag vs sum of rotor thrusts along body z",
                atol=1e-10 * scF, rtol=0, **case)
        mom = J @ xd[10:13] + np.cross(om, J @ om)
        scM = float(np.linalg.norm(np.cross(om, J @ om))) + sum(abs(pd["CT"] * mot[i] ** 2) * (pd["l_motor_%d" % i] + pd["CM"]) for i in range(4)) + 1e-9
        L.close(mom, M_rot, "net moment: J w' + w x J w vs sum_i r_i x T_i e3 - dir_i CM T_i e3 (+ aero damping)",
                atol=1e-9 * scM, rtol=0, **case)
        # accelerometer = specific force: no gravity
        ga = cy.vec(model()["g_accel"](x, case["u"], p, np.zeros(3), 0.01))
        want_a = xd[3:6] + np.cross(om, v) + R.T @ np.array([0, 0, g_])
        L.close(ga, want_a, "accelerometer vs v' + w x v + R^T g e3 (specific force, gravity excluded)", atol=1e-10 * scF / m_, rtol=0, **case)
        gg = cy.vec(model()["g_gyro"](x, case["u"], p, np.zeros(3), 0.01))
        L.close(gg, om, "gyro vs body rate (zero noise)", atol=1e-14 * (1 + np.linalg.norm(om)), rtol=0, **case)

    cells.append(Cell("wrench_accel_gyro", full_case(), check_wrench, nontrivial, classify, quick=500, thorough=10000))

    # hover equilibrium on a symmetric frame
    @st.composite
    def hover_case(draw):
        c = draw(full_case(symmetric=True, aero=False))
        c["yaw"] = draw(gens.fl(-PI, PI))
        c["qsign"] = int(draw(st.sampled_from([1, -1])))
        c["pos"] = [draw(gens.fl(-50.0, 50.0)), draw(gens.fl(-50.0, 50.0)), draw(gens.fl(0.1, 100.0))]
        return c

    def check_hover(case):
        pd = pdict(case)
        w_h = math.sqrt(pd["m"] * pd["g"] / 4 / pd["CT"])
        q = ref.quat_from_axis_angle([0, 0, 1.0], case["yaw"], float(case["qsign"]))
        x = np.array(list(case["pos"]) + [0, 0, 0] + list(q) + [0, 0, 0] + [w_h] * 4, float)
        p = pvec(pd)
        xd = cy.vec(model()["f"](x, [w_h] * 4, p))
        sc = np.array([1.0] * 3 + [pd["g"]] * 3 + [1.0] * 4 + [pd["m"] * pd["g"] * 1.0 / min(pd["Jx"], pd["Jy"], pd["Jz"])] * 3 + [w_h / min(pd["tau_up"], pd["tau_down"])] * 4)
        err = np.abs(xd) / sc
        if not np.all(np.isfinite(xd)) or err.max() > 1e-10:
            raise Violation("level hover with each rotor carrying a quarter of the weight is not an equilibrium: x' = %s" % xd.tolist(),
                            x=x.tolist(), params=pd)
        ga = cy.vec(model()["g_accel"](x, [w_h] * 4, p, np.zeros(3), 0.01))
        L.close(ga, np.array([0, 0, pd["g"]]), "accelerometer in hover vs (0, 0, g)", atol=1e-10 * pd["g"], rtol=0, params=pd)
        # equal speeds on a symmetric frame: zero moment at any (equal) speed, not only hover
        w2 = case["s"]["mot"][0]
        x2 = x.copy()
        x2[13:17] = w2
        xd2 = cy.vec(model()["f"](x2, [w2] * 4, p))
        scm = pd["CT"] * w2**2 * (pd["l_motor_0"] + pd["CM"]) / min(pd["Jx"], pd["Jy"], pd["Jz"]) + 1e-9
        if np.max(np.abs(xd2[10:13])) > 1e-9 * scm:
            raise Violation("equal rotor speeds on a symmetric frame give a non-zero moment: w' = %s" % xd2[10:13].tolist(),
                            x=x2.tolist(), params=pd)

    cells.append(Cell("hover_symmetric", hover_case(), check_hover, lambda c: True, None, quick=300, thorough=5000))

    # free fall: rotors stopped, no drag => accelerometer reads zero
    def check_freefall(case):
        pd = dict(pdict(case), CD0=0.0)
        x = xvec(dict(case["s"], mot=[0.0] * 4))
        p = pvec(pd)
        ga = cy.vec(model()["g_accel"](x, [0.0] * 4, p, np.zeros(3), 0.01))
        if np.max(np.abs(ga)) > 1e-12 * pd["g"]:
            raise Violation("accelerometer reads %s in free fall (rotors stopped, no drag)" % ga.tolist(), x=x.tolist(), params=pd)

    cells.append(Cell("freefall", full_case(), check_freefall,
                      lambda c: c["s"]["rot"]["angle"] > 1e-2 and float(np.linalg.norm(np.cross(c["s"]["om"], c["s"]["vel"]))) > 1e-6,
                      classify, quick=400, thorough=8000))

    # equivariance under horizontal translation and yaw of the world frame (also on/below ground)
    @st.composite
    def eq_case(draw):
        c = draw(full_case(above=draw(st.integers(0, 2)) > 0))
        c["d"] = [draw(gens.fl(-1000.0, 1000.0)), draw(gens.fl(-1000.0, 1000.0))]
        c["psi"] = draw(gens.fl(-PI, PI))
        return c

    def check_equiv(case):
        xd, x, p = evalf(case)
        Rz = ref.Rz(case["psi"])
        qz = ref.quat_from_axis_angle([0, 0, 1.0], case["psi"], 1.0)
        x2 = x.copy()
        x2[0:3] = Rz @ x[0:3] + np.array([case["d"][0], case["d"][1], 0.0])
        x2[6:10] = ref.quat_mul(qz, x[6:10])
        xd2 = cy.vec(model()["f"](x2, case["u"], p))
        want = xd.copy()
        want[0:3] = Rz @ xd[0:3]
        want[6:10] = ref.quat_mul(qz, xd[6:10])
        sc = 1 + np.abs(xd)
        err = np.abs(xd2 - want) / sc
        if not np.all(np.isfinite(xd2)) or err.max() > 1e-9:
            i = int(np.argmax(err))
            raise Violation("not equivariant under world yaw/horizontal translation: component %d (%s) differs by %.3e" % (
                i, model()["xnames"][i], float(np.abs(xd2 - want)[i])), **case)

    cells.append(Cell("equivariance", eq_case(), check_equiv, nontrivial,
                      lambda c: classify(c) + ["above" if c["s"]["pos"][2] > 0 else "on/below ground"], quick=400, thorough=8000))

    # motors
    def check_motor(case):
        xd, x, p = evalf(case)
        pd = pdict(case)
        for i in range(4):
            cmd, w = case["u"][i], x[13 + i]
            wd = xd[13 + i]
            if wd * (cmd - w) < 0:
                raise Violation("motor %d moves away from its command (w'=%g, cmd-w=%g)" % (i, wd, cmd - w), **case)
            tau = pd["tau_up"] if cmd > w else pd["tau_down"]
            if abs(wd - (cmd - w) / tau) > 1e-12 * (1 + abs(cmd - w) / tau):
                raise Violation("motor %d: w' = %.12g, expected (cmd - w)/tau = %.12g with tau_%s" % (
                    i, wd, (cmd - w) / tau, "up" if cmd > w else "down"), **case)

    @st.composite
    def motor_case(draw):
        c = draw(full_case())
        if draw(st.integers(0, 3)) == 0:
            j = draw(st.integers(0, 3))
            c["u"][j] = c["s"]["mot"][j]
        return c

    cells.append(Cell("motor_lag", motor_case(), check_motor, lambda c: not c.get("defaults"),
                      lambda c: ["spinup" if c["u"][0] > c["s"]["mot"][0] else "spindown" if c["u"][0] < c["s"]["mot"][0] else "equal"],
                      quick=400, thorough=8000))
    return cells


def build(tier):
    return {
        "cells": make_cells(tier),
        "rule": RULE,
        "assumptions": [
            "forces/moments besides the rotors follow the model's documented terms: drag -CD0 q S v/|v| and per-rotor aerodynamic "
            "damping (Cl_p P, Cm_q Q, Cn_r R) S l_i (half of the generated parameter sets have them zero); ground contact only "
            "below z = 0 (states above ground except in the equivariance cell)",
            "symmetric frame: equal arms at 90 degrees, opposite rotors spin the same way",
            "tolerances are relative to the magnitude of the terms in each balance (1e-10 force, 1e-9 moment)",
        ],
        "require_classes": {"wrench_accel_gyro": ["att:gimbal"], "freefall": ["att:gimbal"], "equivariance": ["above", "on/below ground"], "motor_lag": ["spinup", "spindown", "equal"]},
        "matchers": {},
    }
