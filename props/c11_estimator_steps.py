"""C11 — each attitude-estimator step keeps the state valid and the covariance consistent."""
from __future__ import annotations

import math

import numpy as np
from hypothesis import strategies as st

from vlib import cy, gens, ref
from vlib.harness import Cell, Violation, require
from props import common_lie as L

ca = cy.ca
PI = math.pi
RULE = (
    "Cases: estimator states (MRP = axis*tan(angle/4) with angle stratified over [0, pi], bias in +-0.1), covariance "
    "factors W lower triangular with diag in [1e-3, 1] and small off-diagonals (plus the shipped W0), gyro rates N*{0.1,1,"
    "10,30} rad/s, dt in [1, 20] ms, declination in +-0.5, inclination in +-1.4, g; measurements in three classes: "
    "consistent (harness sensor model from a generated true attitude), noisy (consistent + bounded noise) and gross (wrong "
    "magnitude 0-5x, zero vector, gravity parallel to the field); attitudes constructed so that both magnetometer gates "
    "fire. Oracles: harness rotation algebra (true attitude, exact gyro integration R exp([w-b]x dt)), numpy eigenvalues. "
    "Non-trivial: predict |w-b|dt >= 1e-3; corrections counted per class (accepted / rejected by each code), every "
    "class must be non-empty; distinct = hash of (cell, inputs rounded to 9 digits)."
)

_e = {}


def eqs():
    if "mrp" not in _e:
        import os
        os.environ.setdefault("MPLBACKEND", "Agg")
        with cy.quiet():
            from cyecca.estimate.attitude import algorithms

            _e["mrp"] = algorithms.eqs()["mrp"]
        _e["W0"] = np.array(_e["mrp"]["constants"]()["W0"], float)
    return _e["mrp"]


def call(name, *args):
    f = eqs()[name]
    r = f.call([ca.DM(np.asarray(a, float)) for a in args])
    return [np.array(x, float) for x in r]


# ---- generators -----------------------------------------------------------------------

@st.composite
def attitude(draw, strata=("zero", "tiny", "mid", "mid", "mid", "nearpi", "pi")):
    th, s = draw(gens.angle(strata=strata, max_angle=PI))
    return {"axis": draw(gens.axis()), "angle": th, "stratum": s}


def mrp_of(att):
    return ref.mrp_from_axis_angle(gens.unit_axis(att["axis"]), att["angle"], False)


def R_of(att):
    return ref.rodrigues(gens.unit_axis(att["axis"]), att["angle"])


@st.composite
def state(draw):
    return {"att": draw(attitude()), "bias": [draw(gens.fl(-0.1, 0.1)) for _ in range(3)]}


def x_of(s):
    return np.concatenate([mrp_of(s["att"]), np.array(s["bias"], float)])


@st.composite
def cov_factor(draw):
    if draw(st.integers(0, 4)) == 0:
        return {"W0": True}
    k = draw(st.sampled_from([1.0, 0.3, 0.1, 0.03]))
    W = [[0.0] * 6 for _ in range(6)]
    for i in range(6):
        for j in range(i):
            W[i][j] = draw(gens.fl(-0.1, 0.1)) * k if draw(st.booleans()) else 0.0
        W[i][i] = 10.0 ** draw(gens.fl(-3.0, 0.0)) * (k if i < 3 else 0.1 * k)
        W[i][i] = min(max(W[i][i], 1e-3), 1.0)
    return {"W": W}


def W_of(c):
    if c.get("W0"):
        eqs()
        return _e["W0"].copy()
    return np.array(c["W"], float)


def lower_only(W):
    return np.tril(W)


# ---- initialise -------------------------------------------------------------------------

@st.composite
def init_case(draw):
    kind = draw(st.sampled_from(["consistent", "consistent", "consistent", "gross_g", "parallel", "zero", "arbitrary"]))
    att = draw(attitude(strata=("zero", "tiny", "mid", "mid", "mid", "nearpi", "pi")))
    decl = draw(gens.fl(-0.5, 0.5))
    incl = draw(gens.fl(-1.4, 1.4))
    g = draw(gens.fl(8.9, 10.7))
    mstr = 10.0 ** draw(gens.fl(-2.0, 1.0))
    c = {"kind": kind, "att": att, "decl": decl, "incl": incl, "g": g, "mag_str": mstr}
    if kind == "gross_g":
        c["g"] = draw(st.sampled_from([0.5, 3.0, 8.0, 8.79, 10.81, 12.0, 20.0, 50.0]))
    if kind == "parallel":
        c["incl"] = draw(st.sampled_from([1.0, -1.0])) * (PI / 2 - draw(gens.fl(0.0, 0.15)))
    if kind == "zero":
        c["zero"] = draw(st.sampled_from(["g", "B", "both"]))
    if kind == "arbitrary":
        c["g_b"] = draw(gens.vector(3, scales=(-1, 0, 1, 1)))
        c["B_b"] = draw(gens.vector(3, scales=(-2, -1, 0)))
    return c


def sensor_model(att, decl, incl, g, mstr):
    C_nb = R_of(att)  # body -> nav
    g_b = C_nb.T @ np.array([0.0, 0.0, -g])
    B_n = ref.Rz(decl) @ ref.Ry(-incl) @ np.array([1.0, 0.0, 0.0]) * mstr
    B_b = C_nb.T @ B_n
    return C_nb, g_b, B_b


def check_init(case):
    C_nb, g_b, B_b = sensor_model(case["att"], case["decl"], case["incl"], case["g"], case["mag_str"])
    if case["kind"] == "zero":
        if case["zero"] in ("g", "both"):
            g_b = np.zeros(3)
        if case["zero"] in ("B", "both"):
            B_b = np.zeros(3)
    if case["kind"] == "arbitrary":
        g_b, B_b = np.array(case["g_b"], float), np.array(case["B_b"], float)
    x0, code = call("initialize", g_b, B_b, case["decl"])
    x0 = x0.reshape(-1)
    code = float(code.reshape(-1)[0])
    if not np.all(np.isfinite(x0)) or not math.isfinite(code):
        raise Violation("initialize returned NaN/inf: x0=%s code=%s" % (x0.tolist(), code), **dict(case, g_b=g_b.tolist(), B_b=B_b.tolist()))
    if code != 0:
        return
    if case["kind"] in ("consistent", "gross_g", "parallel"):
        if abs(case["g"] - 9.8) > 1.0 + 1e-9:
            raise Violation("initialize accepted a gravity measurement of magnitude %g (gate is 9.8 +- 1)" % case["g"], **case)
        r0 = x0[:3]
        if np.linalg.norm(r0) > 1 + 1e-12:
            raise Violation("initialize returned an MRP of norm %.15g > 1" % np.linalg.norm(r0), **case)
        if np.any(x0[3:] != 0):
            raise Violation("initialize returned a non-zero bias %s" % x0[3:].tolist(), **case)
        # conditioning: angle between gravity and field >= 10 deg by the gate
        L.close(ref.mrp_to_R(r0), C_nb, "initialize: attitude from consistent gravity/field vs the attitude that produced them",
                atol=1e-9, rtol=0, **dict(case, g_b=g_b.tolist(), B_b=B_b.tolist()))


def init_nontrivial(case):
    return case["kind"] == "consistent" and case["att"]["angle"] > 1e-2


def init_classify(case):
    C_nb, g_b, B_b = sensor_model(case["att"], case["decl"], case["incl"], case["g"], case["mag_str"])
    return ["kind:" + case["kind"]]


# ---- predict ----------------------------------------------------------------------------

@st.composite
def pred_case(draw):
    sc = draw(st.sampled_from([0.1, 1.0, 10.0, 30.0]))
    return {"x": draw(state()), "W": draw(cov_factor()), "omega": [draw(gens.fl(-1.0, 1.0)) * sc for _ in range(3)],
            "dt": draw(gens.fl(1e-3, 20e-3)), "std_gyro": 10.0 ** draw(gens.fl(-4.0, -2.0)),
            "sn_gyro_rw": 10.0 ** draw(gens.fl(-6.0, -4.0)), "t": draw(gens.fl(0.0, 100.0))}


def run_predict(case, dt=None):
    x = x_of(case["x"])
    W = W_of(case["W"])
    x1, W1 = call("predict", case["t"], x, W, case["omega"], case["std_gyro"], case["sn_gyro_rw"], case["dt"] if dt is None else dt)
    return x, W, x1.reshape(-1), W1


def check_predict(case):
    x, W, x1, W1 = run_predict(case)
    if not np.all(np.isfinite(x1)) or not np.all(np.isfinite(W1)):
        raise Violation("predict returned non-finite values", **case)
    n1 = float(np.linalg.norm(x1[:3]))
    if n1 > 1 + 1e-12:
        raise Violation("predict returned an MRP of norm %.15g > 1" % n1, **case)
    if np.any(x1[3:] != x[3:]):
        raise Violation("predict changed the gyro bias: %s -> %s" % (x[3:].tolist(), x1[3:].tolist()), **case)
    if np.max(np.abs(np.triu(W1, 1))) > 0:
        raise Violation("predict returned a covariance factor that is not lower triangular", **case)
    wb = np.array(case["omega"]) - x[3:]
    th = float(np.linalg.norm(wb)) * case["dt"]
    Rw = ref.mrp_to_R(x[:3]) @ ref.rotvec_to_R(wb * case["dt"])
    e1 = ref.rot_dist(ref.mrp_to_R(x1[:3]), Rw)
    if e1 > 0.01 * th**5 + 1e-12:
        raise Violation("predict: attitude error %.3e vs exact gyro integration exceeds 0.01 theta^5 + 1e-12 (theta = %.4g)" % (e1, th), **case)
    if 0.05 <= th <= 0.3:  # (larger steps are pre-asymptotic: next to the shadow switch the h^6 term is comparable, ratios down to 14)
        _, _, x2, _ = run_predict(case, case["dt"] / 2)
        Rw2 = ref.mrp_to_R(x[:3]) @ ref.rotvec_to_R(wb * case["dt"] / 2)
        e2 = ref.rot_dist(ref.mrp_to_R(x2[:3]), Rw2)
        if e2 > 1e-13:
            ratio = e1 / e2
            if not (20.0 <= ratio <= 50.0):
                raise Violation("predict: error(dt)/error(dt/2) = %.2f, expected about 32 for a fourth-order step "
                                "(errors %.3e, %.3e, theta = %.3g)" % (ratio, e1, e2, th), **case)


def pred_nontrivial(case):
    wb = np.array(case["omega"]) - np.array(case["x"]["bias"])
    return float(np.linalg.norm(wb)) * case["dt"] >= 1e-3


def pred_classify(case):
    wb = np.array(case["omega"]) - np.array(case["x"]["bias"])
    th = float(np.linalg.norm(wb)) * case["dt"]
    return ["theta>=0.05" if th >= 0.05 else "theta<0.05", "att:" + case["x"]["att"]["stratum"], "W0" if case["W"].get("W0") else "Wgen"]


# ---- corrections ------------------------------------------------------------------------

@st.composite
def meas_common(draw):
    c = {"x": draw(state()), "W": draw(cov_factor()), "true": draw(attitude()),
         "near": draw(st.booleans()),  # true attitude = estimate rotated by a small error (realistic) or unrelated
         "err": [draw(gens.fl(-0.05, 0.05)) for _ in range(3)],
         "mclass": draw(st.sampled_from(["consistent", "noisy", "gross_scale", "zero", "gross_dir", "edge"])),
         # 'edge' (accelerometer only): magnitude g + s (1 + d), i.e. just inside / just outside the +-1 gate
         "edge_s": draw(st.sampled_from([-1, 1])), "edge_d": draw(st.sampled_from([-0.05, -5e-3, -1e-4, -1e-7, 1e-7, 1e-4, 5e-3, 0.05])),
         "scale": draw(st.sampled_from([0.0, 0.2, 0.5, 0.85, 1.15, 2.0, 5.0])),
         "noise": [draw(gens.fl(-1.0, 1.0)) for _ in range(3)], "decl": draw(gens.fl(-0.5, 0.5))}
    return c


def true_R(case):
    if case["near"]:
        return ref.mrp_to_R(mrp_of(case["x"]["att"])) @ ref.rotvec_to_R(np.array(case["err"]))
    return R_of(case["true"])


@st.composite
def accel_case(draw):
    c = draw(meas_common())
    c.update({"g": draw(gens.fl(9.0, 10.6)), "omega": draw(gens.vector(3, scales=(-1, 0, 1))),
              "std_accel": 10.0 ** draw(gens.fl(-3.0, -1.0)), "std_accel_omega": draw(st.sampled_from([0.0, 1e-4, 1e-2])),
              "beta": draw(gens.fl(1.0, 20.0))})
    return c


def accel_meas(case):
    C = true_R(case)
    y = C.T @ np.array([0, 0, -case["g"]])
    m = case["mclass"]
    if m == "noisy":
        y = y + 0.3 * np.array(case["noise"])
    elif m == "gross_scale":
        y = y * case["scale"]
    elif m == "zero":
        y = np.zeros(3)
    elif m == "gross_dir":
        y = case["g"] * np.array(case["noise"]) * 3
    elif m == "edge":
        y = y / case["g"] * (case["g"] + case.get("edge_s", 1) * (1.0 + case.get("edge_d", 1e-4)))
    return y


def check_correction(kind, case):
    x = x_of(case["x"])
    W = lower_only(W_of(case["W"]))
    if kind == "accel":
        y = accel_meas(case)
        out = call("correct_accel", x, W, y, case["g"], case["omega"], case["std_accel"], case["std_accel_omega"], case["beta"])
    else:
        y = mag_meas(case)
        out = call("correct_mag", x, W, y, case["decl"], case["std_mag"], case["beta"])
    x1, W1, beta, r, rstd, code = out
    x1 = x1.reshape(-1)
    code = float(code.reshape(-1)[0])
    if not math.isfinite(code):
        raise Violation("correct_%s returned a non-finite error code" % kind, y=y.tolist(), **case)
    if code != 0:
        if not np.array_equal(x1, x):
            raise Violation("correct_%s reported error code %g but changed the state: %s -> %s" % (kind, code, x.tolist(), x1.tolist()),
                            y=y.tolist(), **case)
        if not np.array_equal(W1, W):
            raise Violation("correct_%s reported error code %g but changed the covariance factor" % (kind, code), y=y.tolist(), **case)
        if kind == "accel":
            return
        return
    # accepted
    allv = np.concatenate([x1, W1.reshape(-1), beta.reshape(-1), r.reshape(-1), rstd.reshape(-1)])
    if not np.all(np.isfinite(allv)):
        raise Violation("correct_%s accepted the measurement (code 0) but returned non-finite values" % kind, y=y.tolist(),
                        x1=x1.tolist(), **case)
    if kind == "accel" and abs(float(np.linalg.norm(y)) - case["g"]) > 1.0 + 1e-9:
        raise Violation("correct_accel accepted a measurement of magnitude %.6g with g = %.6g (gate is +-1)" % (np.linalg.norm(y), case["g"]),
                        y=y.tolist(), **case)
    if np.max(np.abs(np.triu(W1, 1))) > 1e-15 * (1 + np.max(np.abs(W1))):
        raise Violation("correct_%s returned a covariance factor that is not lower triangular" % kind, y=y.tolist(), **case)
    P, P1 = W @ W.T, W1 @ W1.T
    D = P - P1
    ev = np.linalg.eigvalsh((D + D.T) / 2)
    if ev.min() < -1e-10 * np.linalg.norm(P):
        raise Violation("correct_%s increased the covariance: min eig(P - P+) = %.3e (|P| = %.3e)" % (kind, ev.min(), np.linalg.norm(P)),
                        y=y.tolist(), **case)


def accel_classify(case):
    y = accel_meas(case)
    inside = abs(float(np.linalg.norm(y)) - case["g"]) <= 1.0
    return ["meas:" + case["mclass"], "gate:inside" if inside else "gate:outside"]


@st.composite
def mag_case(draw):
    c = draw(meas_common())
    c.update({"incl": draw(gens.fl(-1.4, 1.4)), "mag_str": 10.0 ** draw(gens.fl(-2.0, 0.5)),
              "std_mag": 10.0 ** draw(gens.fl(-3.5, -1.0)), "beta": draw(gens.fl(1.0, 20.0)),
              "vertical": draw(st.integers(0, 3)) == 0, "tilt_big": draw(st.integers(0, 3)) == 0,
              "vert_eps": 10.0 ** draw(gens.fl(-5.0, -1.0)),
              # roll/pitch gate band: norm(W00, W11) = 0.1 (1 - band_u) split by band_phi, with a cross term W10
              "tilt_band": draw(st.integers(0, 3)) == 0, "band_u": draw(st.sampled_from([0.0, 1e-6, 0.01, 0.05, 0.15, 0.3, -1e-6, -0.05])),
              "band_phi": draw(gens.fl(0.05, 1.5)), "w10": draw(gens.fl(-0.1, 0.1)),
              # tie: measured field EXACTLY anti-north in the navigation frame (y_n[1] == 0, y_n[0] < 0; heading residual +-pi),
              # at the identity attitude or the half-turn-about-z MRP (0, 0, 1)  (seed C11-r6A)
              "antinorth": draw(st.integers(0, 7)) == 0, "an_yaw180": draw(st.booleans()),
              "an_a": 10.0 ** draw(gens.fl(-2.0, 0.5)), "an_c": draw(gens.fl(-1.0, 1.0))})
    return c


def mag_state(case):
    """state / W possibly steered into the gates: estimated attitude with the (declination-rotated) north axis almost along
    body z (gate 1), or a large roll/pitch variance (gate 2)."""
    x = x_of(case["x"])
    W = lower_only(W_of(case["W"]))
    if case.get("antinorth"):
        x = np.concatenate([[0.0, 0.0, 1.0 if case["an_yaw180"] else 0.0], x[3:]])
        return x, W
    if case["vertical"]:
        # C_nb^T * Rz(decl) e1 = +-e3 up to vert_eps  ->  choose C_nb = Rz(decl) * Ry(-(pi/2 - eps)) * Rz(any)
        Rn = ref.Rz(case["decl"]) @ ref.Ry(-(PI / 2 - case["vert_eps"])) @ ref.Rz(case["err"][0] * 10)
        w = ref.log_SO3(Rn)
        th = float(np.linalg.norm(w))
        x = np.concatenate([math.tan(th / 4) * w / max(th, 1e-300), x[3:]])
    if case["tilt_big"]:
        W = W.copy()
        W[0, 0] = 0.09
        W[1, 1] = 0.09
    elif case.get("tilt_band"):
        W = W.copy()
        n = 0.1 * (1.0 - case["band_u"])
        W[0, 0] = n * math.cos(case["band_phi"])
        W[1, 1] = n * math.sin(case["band_phi"])
        W[1, 0] = case["w10"]
    return x, W


def mag_meas(case):
    x, W = mag_state(case)
    if case.get("antinorth"):
        return np.array([case["an_a"] if case["an_yaw180"] else -case["an_a"], 0.0, case["an_c"] * case["an_a"]])
    C = ref.mrp_to_R(x[:3]) @ ref.rotvec_to_R(np.array(case["err"])) if case["near"] else R_of(case["true"])
    B_n = ref.Rz(case["decl"]) @ ref.Ry(-case["incl"]) @ np.array([1.0, 0, 0]) * case["mag_str"]
    y = C.T @ B_n
    m = case["mclass"]
    if m == "noisy":
        y = y + 0.05 * case["mag_str"] * np.array(case["noise"])
    elif m == "gross_scale":
        y = y * case["scale"]
    elif m == "zero":
        y = np.zeros(3)
    elif m == "gross_dir":
        y = case["mag_str"] * np.array(case["noise"]) * 3
    return y


def check_mag(case):
    x, W = mag_state(case)
    case2 = dict(case)
    y = mag_meas(case)
    out = call("correct_mag", x, W, y, case["decl"], case["std_mag"], case["beta"])
    _post_correction("mag", case, x, W, y, out)


def check_accel(case):
    x = x_of(case["x"])
    W = lower_only(W_of(case["W"]))
    y = accel_meas(case)
    out = call("correct_accel", x, W, y, case["g"], case["omega"], case["std_accel"], case["std_accel_omega"], case["beta"])
    code = _post_correction("accel", case, x, W, y, out)
    inside = abs(float(np.linalg.norm(y)) - case["g"]) <= 1.0 - 1e-9
    if inside and code != 0:
        raise Violation("correct_accel rejected (code %g) a measurement whose magnitude %.6g is within 1 of g = %.6g" % (
            code, np.linalg.norm(y), case["g"]), y=y.tolist(), **case)


def _post_correction(kind, case, x, W, y, out):
    x1, W1, beta, r, rstd, code = out
    x1 = x1.reshape(-1)
    code = float(code.reshape(-1)[0])
    if not math.isfinite(code):
        raise Violation("correct_%s returned a non-finite error code" % kind, y=y.tolist(), **case)
    if code != 0:
        if not np.array_equal(x1, x):
            raise Violation("correct_%s reported error code %g but changed the state: %s -> %s" % (kind, code, x.tolist(), x1.tolist()),
                            y=y.tolist(), **case)
        if not np.array_equal(W1, W):
            raise Violation("correct_%s reported error code %g but changed the covariance factor" % (kind, code), y=y.tolist(), **case)
        return code
    allv = np.concatenate([x1, W1.reshape(-1), beta.reshape(-1), r.reshape(-1), rstd.reshape(-1)])
    if not np.all(np.isfinite(allv)):
        raise Violation("correct_%s accepted the measurement (code 0) but returned non-finite values" % kind, y=y.tolist(),
                        x1=x1.tolist(), **case)
    if kind == "accel" and abs(float(np.linalg.norm(y)) - case["g"]) > 1.0 + 1e-9:
        raise Violation("correct_accel accepted a measurement of magnitude %.6g with g = %.6g (gate is +-1)" % (np.linalg.norm(y), case["g"]),
                        y=y.tolist(), **case)
    if np.max(np.abs(np.triu(W1, 1))) > 1e-15 * (1 + np.max(np.abs(W1))):
        raise Violation("correct_%s returned a covariance factor that is not lower triangular" % kind, y=y.tolist(), **case)
    P, P1 = W @ W.T, W1 @ W1.T
    D = P - P1
    ev = np.linalg.eigvalsh((D + D.T) / 2)
    if ev.min() < -1e-10 * np.linalg.norm(P):
        raise Violation("correct_%s increased the covariance: min eig(P - P+) = %.3e (|P| = %.3e)" % (kind, ev.min(), np.linalg.norm(P)),
                        y=y.tolist(), **case)
    return code


def mag_classify(case):
    x, W = mag_state(case)
    y = mag_meas(case)
    out = call("correct_mag", x, W, y, case["decl"], case["std_mag"], case["beta"])
    code = float(out[5].reshape(-1)[0])
    if case.get("antinorth"):
        return ["meas:antinorth", "code:%g" % code]
    return ["meas:" + case["mclass"], "code:%g" % code] + (["tilt:band"] if case.get("tilt_band") and not case["tilt_big"] else [])


def accel_classify2(case):
    x = x_of(case["x"])
    W = lower_only(W_of(case["W"]))
    y = accel_meas(case)
    out = call("correct_accel", x, W, y, case["g"], case["omega"], case["std_accel"], case["std_accel_omega"], case["beta"])
    return accel_classify(case) + ["code:%g" % float(out[5].reshape(-1)[0])]


def build(tier):
    cells = [
        Cell("initialize", init_case(), check_init, init_nontrivial, init_classify, quick=800, thorough=20000, build=lambda: eqs()),
        Cell("predict", pred_case(), check_predict, pred_nontrivial, pred_classify, quick=500, thorough=10000),
        Cell("correct_accel", accel_case(), check_accel, lambda c: c["x"]["att"]["angle"] > 1e-2, accel_classify2, quick=800, thorough=20000),
        Cell("correct_mag", mag_case(), check_mag, lambda c: c["x"]["att"]["angle"] > 1e-2, mag_classify, quick=800, thorough=20000),
    ]
    return {
        "cells": cells,
        "rule": RULE,
        "assumptions": [
            "sensor model used to build consistent measurements: g_b = C_nb^T (0,0,-g), B_b = C_nb^T Rz(decl) Ry(-incl) e1 * strength "
            "(the convention of the estimator's own measurement functions)",
            "initialisation exactness is asserted (1e-9 on the rotation matrix) whenever the returned error code is 0",
            "prediction accuracy: geodesic error vs R exp([w-b]x dt) <= 0.01 theta^5 + 1e-12 and error ratio on halving dt within "
            "[20, 50] for 0.05 <= theta <= 0.3 (measured on the unchanged tree over 3000 draws: coefficient <= 1.5e-3, ratio in [27.2, 36.2]; at theta = 0.6 next to the shadow switch the thorough tier found 14 - pre-asymptotic, the h^6 term is comparable there)",
            "'bit-for-bit unchanged' is checked with numpy array_equal on the returned x and W (W passed lower-triangular)",
            "covariance monotonicity: lambda_min(P - P+) >= -1e-10 |P|",
        ],
        "require_classes": {"correct_accel": ["code:0", "code:1", "gate:inside", "gate:outside"],
                            "correct_mag": ["code:0", "code:1", "code:2"],
                            "initialize": ["kind:consistent", "kind:gross_g", "kind:parallel", "kind:zero", "kind:arbitrary"]},
        "matchers": {},
    }
