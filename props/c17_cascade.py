"""C17 — the shipped control cascade stabilises the shipped quadrotor model."""
from __future__ import annotations

import math

import numpy as np
from hypothesis import strategies as st

from vlib import cy, gens, ref
from vlib.harness import Cell, Violation, require
from props import c15_controllers as K
from props import c16_quadrotor as Q

ca = cy.ca
PI = math.pi
RULE = (
    "Cases (histories): closed-loop runs of 20-30 simulated seconds at 100 Hz: plant model['f'] with default parameters "
    "integrated by RK4 with 10 sub-steps per control period (written in the harness), controllers wired and tuned as in "
    "scripts/rdd2_sim.py (k_p_att = (5,5,2), rate PID kp = (0.3,0.3,0.05), kd = (0.1,0.1,0), f_cut = 10, F_max = 20, trim = "
    "m g, dt = 10 ms), both cascades (position_control + attitude_control, se23_error + se23_position_control + "
    "so3_attitude_control), hover set-point >= 5 m above ground with a commanded heading; initial position within +-3 m, "
    "tilt <= 60 deg about a random axis (quaternion of either sign), velocity and body rate of order 1, rotors at hover "
    "speed. Invariants over the whole trajectory. Non-trivial: initial tilt >= 20 deg or initial position error >= 1 m; "
    "distinct = hash of the run parameters."
)
GAINS = {"k_p_att": [5.0, 5.0, 2.0], "kp": [0.3, 0.3, 0.05], "ki": [0.0, 0.0, 0.0], "kd": [0.1, 0.1, 0.0], "f_cut": 10.0,
         "i_max": [0.0, 0.0, 0.0], "F_max": 20.0, "dt": 0.01}
_c = {}


def step_fn(mode):
    key = "step_" + mode
    if key in _c:
        return _c[key]
    mm = Q.model()
    pd = dict(mm["m"]["p_defaults"])
    p = Q.pvec({})
    m_, g_ = pd["m"], pd["g"]
    dt = GAINS["dt"]
    x = ca.SX.sym("x", 17)
    mem = ca.SX.sym("mem", 10)  # i0(3), e0(3), de0(3), z_i
    sp = ca.SX.sym("sp", 4)  # position set-point, heading
    q = x[6:10]
    om = x[10:13]
    pw = x[0:3]
    vb = x[3:6]
    vw = cy.lie.SO3Quat.elem(q).to_Matrix() @ vb
    qc = ca.vertcat(ca.cos(sp[3] / 2), 0, 0, ca.sin(sp[3] / 2))
    zero3 = ca.SX.zeros(3)
    trim = m_ * g_
    z_i = mem[9]
    if mode == "mellinger":
        thrust, q_sp, z2 = K.fn("pos")(trim, sp[0:3], zero3, zero3, qc, pw, vw, z_i, dt)
        om_sp = K.fn("att")(GAINS["k_p_att"], q, q_sp)
    else:
        zeta = K.fn("se23err")(pw, vw, q, sp[0:3], zero3, qc)
        thrust, q_sp, z2 = K.fn("se23pos")(trim, GAINS["k_p_att"], zeta, zero3, qc, z_i, dt)
        om_sp = K.fn("so3att")(GAINS["k_p_att"], q, q_sp)
    M, i1, e1, de1, alpha = K.fn("rate")(GAINS["kp"], GAINS["ki"], GAINS["kd"], GAINS["f_cut"], GAINS["i_max"], om, om_sp,
                                         mem[0:3], mem[3:6], mem[6:9], dt)
    u, Fp, Fm, Ft, Msat = K.fn("alloc")(GAINS["F_max"], pd["l_motor_0"], pd["CM"], pd["CT"], thrust, M)
    f = mm["m"]["f"]
    nsub = 10
    h = dt / nsub
    xk = x
    for _ in range(nsub):
        k1 = f(xk, u, p)
        k2 = f(xk + h / 2 * k1, u, p)
        k3 = f(xk + h / 2 * k2, u, p)
        k4 = f(xk + h * k3, u, p)
        xk = xk + h / 6 * (k1 + 2 * k2 + 2 * k3 + k4)
    mem1 = ca.vertcat(i1, e1, de1, z2)
    F = ca.Function(key, [x, mem, sp], [xk, mem1, Fp, thrust, q_sp])
    _c[key] = F
    return F


@st.composite
def run_case(draw, modes=("mellinger", "loglinear")):
    mode = draw(st.sampled_from(list(modes)))
    tilt = draw(gens.fl(0.0, PI / 3))
    if draw(st.integers(0, 3)) == 0:
        tilt = draw(st.sampled_from([PI / 3, PI / 4, 0.0]))
    hm = draw(st.integers(0, 2))
    if mode == "loglinear":
        psi_sp = 0.0 if hm == 0 else (draw(gens.fl(-0.3, 0.3)) if hm == 1 else draw(gens.fl(-PI, PI)))
    else:
        psi_sp = 0.0 if hm == 0 else draw(gens.fl(-PI, PI))
    p0 = [draw(gens.fl(-3.0, 3.0)) for _ in range(3)]
    v0 = [draw(gens.fl(-1.5, 1.5)) for _ in range(3)]
    if draw(st.integers(0, 3)) == 0:
        # corner of the envelope: large tilt while sinking, below the set-point (the descent must be arrested first)
        tilt = draw(st.sampled_from([PI / 3, PI / 3.5, PI / 4]))
        v0 = [draw(st.sampled_from([-1.5, 0.0, 1.5])), draw(st.sampled_from([-1.5, 0.0, 1.5])), -1.5]
        p0[2] = draw(st.sampled_from([-3.0, -2.0, 0.0]))
    return {"mode": mode, "p0": p0, "axis": draw(gens.axis()), "tilt": tilt,
            "qsign": int(draw(st.sampled_from([1, -1]))), "v0": v0,
            "w0": [draw(gens.fl(-1.5, 1.5)) for _ in range(3)], "psi_sp": psi_sp, "yaw0_at_sp": draw(st.booleans()),
            "alt": draw(gens.fl(8.0, 30.0)), "tf": float(draw(st.integers(25 if mode == "loglinear" else 20, 30)))}


def simulate(case):
    mm = Q.model()
    pd = dict(mm["m"]["p_defaults"])
    F = step_fn(case["mode"])
    sp = np.array([0.0, 0.0, case["alt"], case["psi_sp"]])
    ax = gens.unit_axis(case["axis"])
    q0 = ref.quat_from_axis_angle(ax, case["tilt"], 1.0)
    if case["yaw0_at_sp"]:
        q0 = ref.quat_mul(ref.quat_from_axis_angle([0, 0, 1.0], case["psi_sp"], 1.0), q0)
    q0 = case["qsign"] * q0
    w_h = math.sqrt(pd["m"] * pd["g"] / 4 / pd["CT"])
    x = np.concatenate([sp[0:3] + np.array(case["p0"]), case["v0"], q0, case["w0"], [w_h] * 4])
    mem = np.zeros(10)
    n = int(round(case["tf"] / GAINS["dt"]))
    rec = {"t": [], "perr": [], "tilt": [], "rate": [], "Fmin": [], "Fmax": [], "yawerr": []}
    xd, memd, spd = ca.DM(x), ca.DM(mem), ca.DM(sp)
    for k in range(n):
        xd, memd, Fp, thrust, q_sp = F(xd, memd, spd)
        if k % 10 == 9 or k == n - 1:
            xv = np.array(xd).reshape(-1)
            if not np.all(np.isfinite(xv)):
                return rec, "non-finite state at t=%.2f s" % ((k + 1) * GAINS["dt"]), xv
            R = ref.quat_to_R(xv[6:10] / np.linalg.norm(xv[6:10]))
            rec["t"].append((k + 1) * GAINS["dt"])
            rec["perr"].append(float(np.linalg.norm(xv[0:3] - sp[0:3])))
            rec["tilt"].append(math.acos(max(-1.0, min(1.0, R[2, 2]))))
            rec["rate"].append(float(np.linalg.norm(xv[10:13])))
            yaw = math.atan2(R[1, 0], R[0, 0])
            rec["yawerr"].append(abs((yaw - case["psi_sp"] + PI) % (2 * PI) - PI))
            if xv[2] < 0.05:
                return rec, "vehicle hit the ground at t=%.2f s" % ((k + 1) * GAINS["dt"]), xv
            if abs(float(np.linalg.norm(xv[6:10])) - 1) > 1e-3:
                return rec, "quaternion norm drifted to %.6f" % np.linalg.norm(xv[6:10]), xv
        Fv = np.array(Fp).reshape(-1)
        if not np.all(np.isfinite(Fv)) or Fv.min() < -1e-9 or Fv.max() > GAINS["F_max"] * (1 + 1e-9):
            return rec, "motor command outside [0, F_max] or non-finite at step %d: %s" % (k, Fv.tolist()), None
        rec["Fmin"].append(float(Fv.min()))
        rec["Fmax"].append(float(Fv.max()))
    return rec, None, np.array(xd).reshape(-1)


def check_run(case):
    require(case["tilt"] <= PI / 3 + 1e-9 and all(abs(v) <= 3.0 for v in case["p0"]) and 15 <= case["tf"] <= 60 and case["alt"] >= 6)
    rec, err, xv = simulate(case)
    if err:
        raise Violation("closed loop (%s): %s" % (case["mode"], err), **case)
    t = np.array(rec["t"])
    perr = np.array(rec["perr"])
    last2 = t >= case["tf"] - 2.0
    if perr[last2].max() > 0.05:
        raise Violation("closed loop (%s): position error %.3f m over the last 2 s (> 0.05 m); error at 5 s was %.3f m" % (
            case["mode"], perr[last2].max(), perr[np.argmin(np.abs(t - 5.0))]), **case)
    if rec["tilt"][-1] > 0.02 or rec["rate"][-1] > 0.02:
        raise Violation("closed loop (%s): attitude/rates not settled at the end (tilt %.4f rad, |omega| %.4f rad/s)" % (
            case["mode"], rec["tilt"][-1], rec["rate"][-1]), **case)
    if rec["yawerr"][-1] > 0.05:
        raise Violation("closed loop (%s): heading error %.3f rad at the end" % (case["mode"], rec["yawerr"][-1]), **case)
    p5 = perr[np.argmin(np.abs(t - 5.0))]
    if perr[-1] > max(p5, 0.01):
        raise Violation("closed loop (%s): position error at the end (%.3f m) is not below its value at 5 s (%.3f m)" % (
            case["mode"], perr[-1], p5), **case)


def nontrivial(case):
    return case["tilt"] >= math.radians(20) or float(np.linalg.norm(case["p0"])) >= 1.0


def classify(case):
    return ["mode:" + case["mode"], "heading0" if case["psi_sp"] == 0 else ("heading>0.3" if abs(case["psi_sp"]) > 0.3 else "heading<=0.3"),
            "qsign:%d" % case["qsign"]]


def known_loglinear_heading(cellname, case, v):
    """Recorded finding: the log-linear outer loop uses the body-frame SE_2(3) error as a world-frame force, so it only
    stabilises for commanded headings near zero."""
    return case.get("mode") == "loglinear" and abs(case.get("psi_sp", 0.0)) > 0.3 and (
        "position error" in v.msg or "hit the ground" in v.msg or "not settled" in v.msg or "heading error" in v.msg
        or "non-finite" in v.msg)


def build(tier):
    cells = [
        Cell("closed_loop/mellinger", run_case(modes=("mellinger",)), check_run, nontrivial, classify, quick=200, thorough=1600, shrink=False,
             shards_quick=8, shards_thorough=16, weight=1000.0, build=lambda: step_fn("mellinger")),
        Cell("closed_loop/loglinear", run_case(modes=("loglinear",)), check_run, nontrivial, classify, quick=200, thorough=1600, shrink=False,
             shards_quick=8, shards_thorough=16, weight=1000.0, build=lambda: step_fn("loglinear")),
    ]
    return {
        "cells": cells,
        "rule": RULE,
        "assumptions": [
            "bounded-horizon reading of 'converges': position error <= 0.05 m over the last 2 s of a 20-30 s run, final tilt and "
            "body rate <= 0.02, final heading error <= 0.05 rad, final position error below its value at 5 s; motors within "
            "[0, F_max] at every control step; no NaN; the vehicle never reaches the ground plane",
            "the controller sees the true state (the simulator's 'fake estimator' path) and a constant hover set-point "
            "(position, heading) is fed directly to the outer loop, as the velocity mode does with centred sticks",
            "failing runs are not shrunk; the replay file holds the run parameters",
        ],
        "matchers": {"loglinear_heading": known_loglinear_heading},
    }
