"""C20 — the simulation bus delivers every message once, in order, to the right nodes; estimator scheduling."""
from __future__ import annotations

import math

import numpy as np
from hypothesis import strategies as st

from vlib import cy, gens
from vlib import fuzz
from vlib.harness import Cell, Violation, require

ca = cy.ca
RULE = (
    "Cases: generated scenarios executed on a fresh uros.Core (simpy is a deterministic single-threaded discrete-event "
    "kernel, so the harness owns the schedule): 1-4 topics with message types from cyecca.sim.msgs, 0-3 recording "
    "subscribers per topic created before or after the first (pre-run) publishes, nodes declaring parameters that follow "
    "or ignore the params topic, an optional Logger with a generated period, publisher processes with dyadic delay lists "
    "(zero delays -> simultaneous events and bursts), wrong-type publishes, reused vs fresh message objects, timed "
    "set_param updates (including the logger period). Reference model: per topic the list of publishes in execution "
    "order and the subscriber set at each publish. Estimator node: constructed with recording spies in place of the "
    "CasADi functions; generated IMU/mag stamp patterns with duplicates, out-of-order and bursty arrivals and dt_min "
    "updates. Non-trivial (bus): >= 2 subscribers on a topic, >= 1 pair of simultaneous events and >= 1 parameter "
    "update; (estimator): at least one non-positive dt and one too-early correction opportunity; distinct = hash of the "
    "scenario."
)
TYPES = ["Imu", "Mag", "Attitude", "EstimatorStatus"]
# the sequence number of a generated message travels in a payload field, so that the time stamp is free to repeat
PAYLOAD = {"Imu": "gyro", "Mag": "mag", "Attitude": "q", "EstimatorStatus": "x"}


def mods():
    with cy.quiet():
        import cyecca.sim.msgs as msgs
        import cyecca.sim.uros as uros
        import simpy
    return msgs, uros, simpy


# --------------------------------------------------------------------------------------
# bus scenarios
# --------------------------------------------------------------------------------------
dy = st.integers(0, 16).map(lambda k: k / 64.0)


@st.composite
def scenario(draw):
    nt = draw(st.integers(1, 4))
    topics = [{"type": draw(st.sampled_from(TYPES)), "subs_early": draw(st.integers(0, 3)), "subs_late": draw(st.integers(0, 2)),
               "subs_before_pub": draw(st.sampled_from([0, 0, 1, 2]))}
              for _ in range(nt)]
    pre = []
    for _ in range(draw(st.integers(0, 6))):
        pre.append({"op": draw(st.sampled_from(["pub", "pub", "wrong", "sub_late"])), "topic": draw(st.integers(0, nt - 1))})
    nodes = []
    for i in range(draw(st.integers(0, 3))):
        nodes.append({"follows": draw(st.booleans()) or i == 0,
                      # declared defaults are floats or plain ints (the shipped nodes declare e.g. mag_incl = 0 with dtype f8)
                      "params": [draw(st.one_of(gens.fl(-10.0, 10.0), st.integers(-10, 10))) for _ in range(draw(st.integers(1, 3)))]})
    logger = draw(st.integers(0, 3)) > 0
    ldt = draw(st.sampled_from([None, 1 / 64.0, 1 / 32.0, 3 / 64.0, 1 / 128.0]))
    procs = []
    for _ in range(draw(st.integers(1, 4))):
        ti = draw(st.integers(0, nt - 1))
        n = draw(st.integers(1, 12))
        procs.append({"topic": ti, "start": draw(dy), "delays": [draw(dy) for _ in range(n)],
                      "reuse": draw(st.booleans()), "scribble": draw(st.booleans()), "wrong_at": sorted(set(draw(st.lists(st.integers(0, n - 1), max_size=2))))})
    updates = []
    for _ in range(draw(st.integers(0, 4))):
        if nodes:
            ni = draw(st.integers(0, len(nodes) - 1))
            updates.append({"t": draw(dy) * 4, "node": ni, "pi": draw(st.integers(0, len(nodes[ni]["params"]) - 1)),
                            "value": draw(gens.fl(-100.0, 100.0))})
    if logger and draw(st.booleans()):
        updates.append({"t": draw(dy) * 4, "logger_dt": draw(st.sampled_from([1 / 64.0, 1 / 16.0, 1 / 128.0, 5 / 64.0]))})
    tf = draw(st.sampled_from([0.25, 0.5, 1.0, 1.5]))
    relays = []
    if nt >= 2:
        for _ in range(draw(st.integers(0, 2))):
            src = draw(st.integers(0, nt - 2))
            relays.append({"src": src, "dst": draw(st.integers(src + 1, nt - 1))})
    return {"relays": relays, "topics": topics, "pre": pre, "nodes": nodes, "logger": logger, "logger_dt": ldt, "procs": procs,
            "updates": updates, "tf": tf, "stamp": draw(st.sampled_from(["seq", "clock"]))}


def seq_field(tname):
    return "time"


def run_scenario(sc):
    # domain guards (also protect the float simplifier from wandering into a zero logging period = endless loop)
    require(all(u.get("logger_dt", 1.0) >= 1.0 / 512 for u in sc["updates"]) and (sc["logger_dt"] is None or sc["logger_dt"] >= 1.0 / 512))
    require(0 < sc["tf"] <= 4 and all(d >= 0 for pr in sc["procs"] for d in pr["delays"]) and all(u["t"] >= 0 for u in sc["updates"]))
    msgs, uros, simpy = mods()
    core = uros.Core()
    nt = len(sc["topics"])
    mtypes = [getattr(msgs, t["type"]) for t in sc["topics"]]
    pay = [PAYLOAD[t["type"]] for t in sc["topics"]]
    received = {}  # sub id -> list of (seq, now)
    subs_of = [[] for _ in range(nt)]  # topic -> list of sub ids (registration order)
    log = {"pubs": [[] for _ in range(nt)], "events": [], "errors": []}
    counter = [0]

    def add_sub(ti):
        sid = "t%d_s%d" % (ti, len(subs_of[ti]))
        received[sid] = []

        def cb(msg, sid=sid, ti=ti):
            received[sid].append((float(msg.data[pay[ti]][0]), float(core.now)))

        uros.Subscriber(core, "topic%d" % ti, mtypes[ti], cb)
        subs_of[ti].append(sid)

    # construction order: some subscribers exist before the publisher of their topic (a node built before the simulator)
    pubs = []
    for ti, t in enumerate(sc["topics"]):
        for _ in range(t.get("subs_before_pub", 0)):
            add_sub(ti)
        pubs.append(uros.Publisher(core, "topic%d" % ti, mtypes[ti]))
    for ti, t in enumerate(sc["topics"]):
        for _ in range(t["subs_early"]):
            add_sub(ti)
    late_left = [t["subs_late"] for t in sc["topics"]]
    relay_log = []

    def add_relay(src, dst):
        def cb(msg):
            seq_in = float(msg.data[pay[src]][0])
            n0 = len(log["pubs"][dst])
            do_publish(dst)  # nested publish from inside a callback: checked like any other publish
            relay_log.append((seq_in, log["pubs"][dst][n0][0]))

        uros.Subscriber(core, "topic%d" % src, mtypes[src], cb)

    for rl in sc.get("relays", []):
        add_relay(rl["src"], rl["dst"])

    def do_publish(ti, msg_obj=None, wrong=False, scribble=False):
        """publish one message with a fresh sequence number; checks synchronous exactly-once delivery"""
        before = {sid: len(received[sid]) for sid in received}
        if wrong:
            other = [m for m in (msgs.Imu, msgs.Mag, msgs.Attitude, msgs.EstimatorStatus) if m is not mtypes[ti]][0]
            bad = other()
            bad.data["time"] = -1.0
            try:
                pubs[ti].publish(bad)
            except ValueError:
                pass
            except Exception as e:  # any rejection is fine as long as it is a rejection
                pass
            else:
                raise Violation("a %s message was accepted on a %s topic" % (other.__name__, mtypes[ti].__name__), scenario=sc)
            for sid in received:
                if len(received[sid]) != before[sid]:
                    raise Violation("a rejected wrong-type message was delivered to subscriber %s" % sid, scenario=sc)
            return
        counter[0] += 1
        seq = float(counter[0])
        m = msg_obj if msg_obj is not None else mtypes[ti]()
        m.data[pay[ti]][0] = seq
        # time stamp: the sequence number, or the simulation clock (then messages published in the same instant share it)
        m.data["time"] = seq if sc.get("stamp", "seq") == "seq" else float(core.now)
        expected = list(subs_of[ti])
        log["pubs"][ti].append((seq, float(core.now)))
        n_relayed_before = len(relay_log)
        pubs[ti].publish(m)
        n_rel = sum(1 for rl in sc.get("relays", []) if rl["src"] == ti)
        if len(relay_log) - n_relayed_before < n_rel:
            raise Violation("publish #%d on topic%d returned before the callbacks of its subscribers had run (relay callbacks "
                            "run: %d of %d)" % (int(seq), ti, len(relay_log) - n_relayed_before, n_rel), scenario=sc)
        for sid in received:
            if not sid.startswith("t%d_" % ti):
                continue  # other topics may legitimately receive relayed messages during this call (checked in their own publish)
            grew = len(received[sid]) - before[sid]
            want = 1 if sid in expected else 0
            if grew != want:
                raise Violation("publish #%d on topic%d at t=%g: subscriber %s received %d message(s) during the call, "
                                "expected %d (delivery must be synchronous, exactly once, to subscribers of that topic only)"
                                % (int(seq), ti, core.now, sid, grew, want), scenario=sc)
            if want and received[sid][-1][0] != seq:
                raise Violation("subscriber %s received message #%g instead of #%d" % (sid, received[sid][-1][0], int(seq)), scenario=sc)
        if scribble and msg_obj is not None:
            # the publisher goes on filling its (reused) message object for the next publication: nobody may see this value
            m.data[pay[ti]][0] = -(seq + 0.5)
            m.data["time"] = -(seq + 0.5)

    # pre-run phase (before the logger locks the registry)
    for a in sc["pre"]:
        ti = a["topic"]
        if a["op"] == "pub":
            do_publish(ti)
        elif a["op"] == "wrong":
            do_publish(ti, wrong=True)
        elif a["op"] == "sub_late" and late_left[ti] > 0:
            late_left[ti] -= 1
            add_sub(ti)
    for ti in range(nt):
        for _ in range(late_left[ti]):
            add_sub(ti)

    # nodes with parameters
    node_params = []
    for ni, nd in enumerate(sc["nodes"]):
        plist = [uros.Param(core, "node%d/p%d" % (ni, k), v, "f8") for k, v in enumerate(nd["params"])]
        node_params.append(plist)
        if nd["follows"]:
            def pcb(msg, plist=plist):
                for p in plist:
                    p.update()

            uros.Subscriber(core, "params", msgs.Params, pcb)

    logger = uros.Logger(core) if sc["logger"] else None
    n_before_logger = [len(log["pubs"][ti]) for ti in range(nt)]  # the logger only sees what is published after it exists
    core.init_params()
    default_logger_dt = float(core.get_param("logger/dt")) if logger is not None else None  # the declared default period
    if logger is not None and sc["logger_dt"] is not None:
        core.set_param("logger/dt", sc["logger_dt"])

    truth = {}  # param name -> value held by the core
    for ni, nd in enumerate(sc["nodes"]):
        for k, v in enumerate(nd["params"]):
            truth["node%d/p%d" % (ni, k)] = v

    def check_params(when):
        for ni, nd in enumerate(sc["nodes"]):
            for k, p in enumerate(node_params[ni]):
                name = "node%d/p%d" % (ni, k)
                cv = float(core.get_param(name))
                if cv != truth[name]:
                    raise Violation("core parameter %s = %r, expected %r %s" % (name, cv, truth[name], when), scenario=sc)
                if nd["follows"] and float(p.get()) != truth[name]:
                    raise Violation("node%d follows the params topic but sees %s = %r instead of %r %s" % (
                        ni, name, p.get(), truth[name], when), scenario=sc)

    def pub_proc(pr):
        ti = pr["topic"]
        obj = mtypes[ti]() if pr["reuse"] else None
        if pr["start"] > 0:
            yield simpy.Timeout(core, pr["start"])
        for k, d in enumerate(pr["delays"]):
            do_publish(ti, obj, wrong=False, scribble=pr.get("scribble", False))
            if k in pr["wrong_at"]:
                do_publish(ti, wrong=True)
            if d > 0:
                yield simpy.Timeout(core, d)

    def upd_proc(u):
        if u["t"] > 0:
            yield simpy.Timeout(core, u["t"])
        if "logger_dt" in u:
            core.set_param("logger/dt", u["logger_dt"])
            log["events"].append(("logger_dt", float(core.now), u["logger_dt"]))
        else:
            name = "node%d/p%d" % (u["node"], u["pi"])
            truth[name] = u["value"]
            core.set_param(name, u["value"])
            check_params("right after set_param at t=%g" % core.now)

    for pr in sc["procs"]:
        simpy.Process(core, pub_proc(pr))
    for u in sc["updates"]:
        if "logger_dt" in u and logger is None:
            continue
        simpy.Process(core, upd_proc(u))
    core.run(until=sc["tf"])
    check_params("at the end of the run")

    # delivery: every subscriber's list == publishes on its topic after it subscribed, in order
    for ti in range(nt):
        allp = [s for s, _ in log["pubs"][ti]]
        for sid in subs_of[ti]:
            got = [s for s, _ in received[sid]]
            if got != sorted(got) or len(set(got)) != len(got):
                raise Violation("subscriber %s received messages out of order or duplicated: %s" % (sid, got), scenario=sc)
            # got must be a suffix-closed subset: all publishes from its first one on
            if got:
                first = allp.index(got[0]) if got[0] in allp else None
                if first is None or allp[first:] != got:
                    raise Violation("subscriber %s missed or gained messages: received %s, published on its topic %s" % (sid, got, allp), scenario=sc)
            for (s, tnow), (s2, tp) in zip(received[sid], [p for p in log["pubs"][ti] if p[0] in got]):
                if tnow != tp:
                    raise Violation("message #%d delivered at t=%g but published at t=%g (not synchronous)" % (int(s), tnow, tp), scenario=sc)

    # logger
    if logger is not None:
        arr = logger.get_log_as_array()
        times = [float(t) for t in arr["time"]]
        # expected row times: start at 0, then + current period (updated synchronously by the params broadcast)
        dt = sc["logger_dt"] if sc["logger_dt"] is not None else default_logger_dt
        changes = sorted([(e[1], e[2]) for e in log["events"] if e[0] == "logger_dt"])
        if times[:1] != [0.0]:
            raise Violation("logger: first row at %s, expected 0" % times[:1], scenario=sc)
        for a, b in zip(times, times[1:]):
            if b < a:
                raise Violation("logger: row time decreases %g -> %g" % (a, b), scenario=sc)
        if not changes:
            want = []
            tt = 0.0
            while tt < sc["tf"]:  # simpy accumulates now + delay in floating point, rows strictly before tf
                want.append(tt)
                tt = tt + dt
            if len(times) != len(want) or max(abs(a - b) for a, b in zip(times, want)) > 1e-9:
                raise Violation("logger: %d rows (last %.17g), expected one row per period %g in [0, %g): %d rows" % (
                    len(times), times[-1], dt, sc["tf"], len(want)), scenario=sc)
        else:
            # with period updates: the gap after a row equals the period in force when that row was taken
            # (an update at exactly the row time may or may not have been seen)
            def in_force(tq, inclusive):
                v = dt
                for (tu, val) in changes:
                    if tu < tq or (inclusive and tu == tq):
                        v = val
                return v

            for a, b in zip(times, times[1:]):
                allowed = {in_force(a, False), in_force(a, True)}
                if not any(abs((b - a) - v) < 1e-9 for v in allowed):
                    raise Violation("logger: gap %g after the row at t=%g, but the logging period in force then was %s "
                                    "(period updates: %s)" % (b - a, a, sorted(allowed), changes), scenario=sc)
            last_allowed = max(in_force(times[-1], False), in_force(times[-1], True))
            if sc["tf"] - times[-1] > last_allowed + 1e-9:
                raise Violation("logger: no row in the last %g s" % (sc["tf"] - times[-1]), scenario=sc)
        for ti in range(nt):
            col = arr["topic%d" % ti][pay[ti]][:, 0]
            for ri, t in enumerate(times):
                seen = log["pubs"][ti][n_before_logger[ti]:]
                before = [s for s, tp in seen if tp < t]
                at = [s for s, tp in seen if tp == t]
                allowed = ([before[-1]] if before else [None]) + at
                v = float(col[ri])
                got = None if math.isnan(v) else v
                if got not in allowed:
                    raise Violation("logger row %d (t=%g), topic%d holds message #%s, expected the latest published "
                                    "(one of %s)" % (ri, t, ti, got, allowed), scenario=sc)
    return log, received, subs_of


def bus_nontrivial(sc):
    two = any(t["subs_early"] + t["subs_late"] >= 2 for t in sc["topics"])
    # simultaneous events: any zero delay or equal start times
    simult = any(0.0 in pr["delays"][:-1] for pr in sc["procs"]) or len({pr["start"] for pr in sc["procs"]}) < len(sc["procs"])
    return two and simult and len(sc["updates"]) >= 1


def bus_classify(sc):
    out = ["logger" if sc["logger"] else "nologger"]
    if any(a["op"] == "pub" for a in sc["pre"]) and any(t["subs_late"] for t in sc["topics"]):
        out.append("late-subscriber-after-publish")
    if any(pr["wrong_at"] for pr in sc["procs"]) or any(a["op"] == "wrong" for a in sc["pre"]):
        out.append("wrong-type")
    if sc.get("stamp") == "clock":
        out.append("clock-stamps")
    if any(t.get("subs_before_pub") for t in sc["topics"]):
        out.append("subscriber-before-publisher")
    if any(pr["reuse"] for pr in sc["procs"]):
        out.append("reused-msg")
    if any(pr["reuse"] and pr.get("scribble") for pr in sc["procs"]):
        out.append("reused-msg-written-after-publish")
    if any("logger_dt" in u for u in sc["updates"]):
        out.append("logger-period-update")
    if any(not nd["follows"] for nd in sc["nodes"]):
        out.append("non-following-node")
    if sc.get("relays"):
        out.append("relay")
    return out


def check_bus(sc):
    run_scenario(sc)


# --------------------------------------------------------------------------------------
# estimator node scheduling
# --------------------------------------------------------------------------------------

@st.composite
def est_scenario(draw):
    n = draw(st.integers(5, 60))
    base = draw(st.sampled_from([1 / 200.0, 1 / 400.0, 1 / 100.0, 1 / 50.0]))
    t = 0.0
    events = []
    for i in range(n):
        kind = draw(st.sampled_from(["imu", "imu", "imu", "mag"]))
        m = draw(st.integers(0, 9))
        if m == 0:
            step = 0.0  # duplicate stamp
        elif m == 1:
            step = -base * draw(st.integers(1, 5))  # out of order
        elif m == 2:
            step = base * draw(st.sampled_from([0.05, 0.1, 0.5]))  # burst
        elif m == 3:
            step = base * draw(st.integers(2, 20))  # gap
        else:
            step = base * (1 + draw(gens.fl(-0.1, 0.1)))
        t = t + step
        ev = {"kind": kind, "stamp": t}
        if draw(st.integers(0, 11)) == 0:
            ev["set"] = {"which": draw(st.sampled_from(["accel", "mag"])),
                         "value": draw(st.sampled_from([1 / 200.0, 1 / 50.0, 1 / 20.0, 1 / 1000.0, 0.1, 0.0]))}
        events.append(ev)
    return {"events": events, "initialize": draw(st.booleans()),
            # number of initialisation attempts that report a non-zero error code before one succeeds
            "init_fail": draw(st.sampled_from([0, 0, 0, 1, 2, 5])),
            "dt_min_accel": draw(st.sampled_from([None, 1 / 50.0, 1 / 20.0, 1 / 400.0, 0.1])),
            "dt_min_mag": draw(st.sampled_from([None, 1 / 50.0, 1 / 20.0, 1 / 400.0, 0.1]))}


def run_estimator(sc):
    msgs, uros, simpy = mods()
    with cy.quiet():
        from cyecca.estimate.attitude.estimator import AttitudeEstimator
    core = uros.Core()
    calls = {"predict": [], "accel": [], "mag": [], "init": []}
    cur = {"stamp": None}
    x0 = ca.DM.zeros(6)
    W0 = ca.DM.eye(6)

    def f_constants():
        return {"x0": x0, "W0": W0}

    def f_init(accel, mag, decl):
        calls["init"].append(cur["stamp"])
        if len(calls["init"]) <= sc.get("init_fail", 0):
            return ca.DM.zeros(6), ca.DM(3)
        return ca.DM.zeros(6), ca.DM(0)

    def f_predict(t, x, W, omega, std_gyro, sn, dt):
        calls["predict"].append((float(t), float(dt)))
        return x, W

    def f_get_state(x):
        return ca.DM([1, 0, 0, 0]), ca.DM.zeros(3), ca.DM.zeros(3)

    def f_accel(x, W, y, g, om, s1, s2, beta):
        calls["accel"].append((cur["stamp"], dtmin["accel"]))
        return x, W, ca.DM(0), ca.DM.zeros(2), ca.DM.zeros(2), ca.DM(0)

    def f_mag(x, W, y, decl, s, beta):
        calls["mag"].append((cur["stamp"], dtmin["mag"]))
        return x, W, ca.DM(0), ca.DM.zeros(1), ca.DM.zeros(1), ca.DM(0)

    eqs = {"constants": f_constants, "initialize": f_init, "predict": f_predict, "get_state": f_get_state,
           "correct_accel": f_accel, "correct_mag": f_mag}
    pub_imu = uros.Publisher(core, "imu", msgs.Imu)
    pub_mag = uros.Publisher(core, "mag", msgs.Mag)
    with cy.quiet():
        est = AttitudeEstimator(core, "mrp", eqs, sc["initialize"])
    core.init_params()
    dtmin = {"accel": 1.0 / 200, "mag": 1.0 / 200}
    core.pub_params.publish(core._params)
    if sc["dt_min_accel"] is not None:
        core.set_param("mrp/dt_min_accel", sc["dt_min_accel"])
        dtmin["accel"] = sc["dt_min_accel"]
    if sc["dt_min_mag"] is not None:
        core.set_param("mrp/dt_min_mag", sc["dt_min_mag"])
        dtmin["mag"] = sc["dt_min_mag"]
    imu, mag = msgs.Imu(), msgs.Mag()
    with cy.quiet():
        for ev in sc["events"]:
            if "set" in ev:
                core.set_param("mrp/dt_min_%s" % ev["set"]["which"], ev["set"]["value"])
                dtmin[ev["set"]["which"]] = ev["set"]["value"]
            cur["stamp"] = ev["stamp"]
            if ev["kind"] == "imu":
                imu.data["time"] = ev["stamp"]
                imu.data["gyro"] = [0.1, 0.2, 0.3]
                imu.data["accel"] = [0, 0, -9.8]
                pub_imu.publish(imu)
            else:
                mag.data["time"] = ev["stamp"]
                mag.data["mag"] = [0.1, 0, 0]
                pub_mag.publish(mag)
    return calls


def check_estimator(sc):
    calls = run_estimator(sc)
    for t, dt in calls["predict"]:
        if not dt > 0:
            raise Violation("estimator predicted with non-positive time step dt=%g at stamp %g" % (dt, t), scenario=sc)
    for key in ("accel", "mag"):
        prev = None
        for stamp, dmin in calls[key]:
            if prev is not None and stamp - prev < dmin - 1e-3 - 1e-12:
                raise Violation("%s corrections at stamps %g and %g are %g apart, configured minimum period %g (1 ms tolerance)"
                                % (key, prev, stamp, stamp - prev, dmin), scenario=sc)
            prev = stamp


def est_stats(sc):
    stamps = {"imu": [e["stamp"] for e in sc["events"] if e["kind"] == "imu"], "mag": [e["stamp"] for e in sc["events"] if e["kind"] == "mag"]}
    nonpos = any(b - a <= 0 for a, b in zip(stamps["imu"], stamps["imu"][1:]))
    da = sc["dt_min_accel"] or 1 / 200.0
    early = any(0 < b - a < da - 1e-3 for a, b in zip(stamps["imu"], stamps["imu"][1:]))
    return nonpos, early


def est_nontrivial(sc):
    nonpos, early = est_stats(sc)
    return nonpos and early


def est_classify(sc):
    nonpos, early = est_stats(sc)
    out = []
    if nonpos:
        out.append("non-positive-dt")
    if early:
        out.append("too-early-correction-opportunity")
    if any("set" in e for e in sc["events"]):
        out.append("dt_min-update")
    a, m = sc["dt_min_accel"] or 1 / 200.0, sc["dt_min_mag"] or 1 / 200.0
    out.append("accel>mag" if a > m else "accel<mag" if a < m else "accel==mag")
    out.append("initialize" if sc["initialize"] else "no-initialize")
    if sc["initialize"] and sc.get("init_fail", 0):
        out.append("init-retries")
    return out


# --------------------------------------------------------------------------------------
# the registry as a Hypothesis rule-based state machine (operations in any order, model = dict of lists)
# --------------------------------------------------------------------------------------
_LAST_TRACE = {}


def make_machine():
    from hypothesis.stateful import RuleBasedStateMachine, initialize, invariant, precondition, rule

    msgs, uros, simpy = mods()
    TYPES_ = [msgs.Imu, msgs.Mag, msgs.Attitude, msgs.EstimatorStatus]

    class BusMachine(RuleBasedStateMachine):
        def __init__(self):
            super().__init__()
            self.core = uros.Core()
            self.pubs = {}      # topic -> (publisher, type)
            self.subs = {}      # topic -> list of received lists (real)
            self.model = {}     # topic -> list of expected received lists (model)
            self.seq = 0
            self.trace = []
            self.nodes = []     # (params list, follows, names)
            self.truth = {}
            self.params_ready = False
            _LAST_TRACE["trace"] = self.trace

        @rule(ti=st.integers(0, 3), ty=st.integers(0, 3))
        def add_publisher(self, ti, ty):
            name = "topic%d" % ti
            if name in self.pubs or self.params_ready:
                return
            self.trace.append(("add_publisher", name, TYPES_[ty].__name__))
            self.pubs[name] = (uros.Publisher(self.core, name, TYPES_[ty]), TYPES_[ty])
            self.subs.setdefault(name, [])
            self.model.setdefault(name, [])

        @rule(ti=st.integers(0, 3))
        def add_subscriber(self, ti):
            name = "topic%d" % ti
            if name not in self.pubs:
                return
            self.trace.append(("add_subscriber", name))
            got = []
            self.subs[name].append(got)
            self.model[name].append([])
            uros.Subscriber(self.core, name, self.pubs[name][1], lambda m, got=got: got.append(float(m.data["time"])))

        @rule(ti=st.integers(0, 3), reuse=st.booleans())
        def publish(self, ti, reuse):
            name = "topic%d" % ti
            if name not in self.pubs:
                return
            self.seq += 1
            self.trace.append(("publish", name, self.seq))
            pub, ty = self.pubs[name]
            m = ty()
            m.data["time"] = float(self.seq)
            for lst in self.model[name]:
                lst.append(float(self.seq))
            pub.publish(m)

        @rule(ti=st.integers(0, 3))
        def publish_wrong_type(self, ti):
            name = "topic%d" % ti
            if name not in self.pubs:
                return
            pub, ty = self.pubs[name]
            other = [t for t in TYPES_ if t is not ty][0]
            self.trace.append(("publish_wrong_type", name, other.__name__))
            try:
                pub.publish(other())
            except Exception:
                return
            raise Violation("a %s message was accepted on topic %s of type %s" % (other.__name__, name, ty.__name__), trace=list(self.trace))

        @rule(n=st.integers(1, 3), follows=st.booleans(), v=st.one_of(st.floats(-10, 10), st.integers(-10, 10)))
        def add_node(self, n, follows, v):
            if self.params_ready or len(self.nodes) >= 3:
                return
            ni = len(self.nodes)
            self.trace.append(("add_node", ni, n, follows))
            plist = [uros.Param(self.core, "node%d/p%d" % (ni, k), v + k, "f8") for k in range(n)]
            for k in range(n):
                self.truth["node%d/p%d" % (ni, k)] = v + k
            if follows:
                uros.Subscriber(self.core, "params", msgs.Params, lambda m, plist=plist: [p.update() for p in plist])
            self.nodes.append((plist, follows))

        @precondition(lambda self: not self.params_ready)
        @rule()
        def init_params(self):
            self.trace.append(("init_params",))
            self.core.init_params()
            self.params_ready = True

        @precondition(lambda self: self.params_ready and len(self.truth) > 0)
        @rule(i=st.integers(0, 8), v=st.floats(-100, 100))
        def set_param(self, i, v):
            name = sorted(self.truth)[i % len(self.truth)]
            self.trace.append(("set_param", name, v))
            self.truth[name] = v
            self.core.set_param(name, v)
            for plist, follows in self.nodes:
                for p in plist:
                    if follows and float(p.get()) != self.truth[p.name]:
                        raise Violation("after the broadcast a node that follows the params topic sees %s = %r, core value %r" % (
                            p.name, p.get(), self.truth[p.name]), trace=list(self.trace))

        @invariant()
        def delivered_exactly_once_in_order(self):
            for name in self.subs:
                for got, want in zip(self.subs[name], self.model[name]):
                    if got != want:
                        raise Violation("subscriber of %s received %s, model expects %s" % (name, got, want), trace=list(self.trace))

    return BusMachine


def check_machine(case):
    import hypothesis
    from hypothesis import HealthCheck, settings
    from hypothesis.stateful import run_state_machine_as_test

    M = make_machine()
    try:
        run_state_machine_as_test(
            hypothesis.seed(case["seed"])(M),
            settings=settings(max_examples=case["examples"], stateful_step_count=40, deadline=None, database=None,
                              suppress_health_check=list(HealthCheck), report_multiple_bugs=False, print_blob=False))
    except Violation as v:
        v.details["shrunk_trace"] = list(_LAST_TRACE.get("trace", []))
        raise


def build(tier):
    cells = [
        Cell("bus/state_machine", st.integers(1, 2**30).map(lambda s_: {"seed": s_, "examples": 60 if tier == "quick" else 1500}),
             check_machine, lambda c: True, None, quick=1, thorough=4, shrink=False, shards_thorough=4, case_limit=2 * 3600),
        Cell("bus/scenario", scenario(), check_bus, bus_nontrivial, bus_classify, quick=500, thorough=12000,
             build=lambda: mods()),
        Cell("estimator/scheduling", est_scenario(), check_estimator, est_nontrivial, est_classify, quick=500, thorough=12000),
        # thorough tier: coverage-guided campaigns (atheris/libFuzzer on the Python branches of uros.py / estimator.py) over the
        # same strategies and the same oracles
        fuzz.atheris_cell("bus/atheris", "props.c20_bus", "scenario", "check_bus", ["cyecca.sim.uros", "cyecca.sim.msgs"], 40000, "c20_bus"),
        fuzz.atheris_cell("estimator/atheris", "props.c20_bus", "est_scenario", "check_estimator",
                          ["cyecca.sim.uros", "cyecca.sim.msgs", "cyecca.estimate.attitude.estimator"], 40000, "c20_est"),
    ]
    return {
        "cells": cells,
        "rule": RULE,
        "assumptions": [
            "schedules are those expressible in simpy's deterministic kernel (no threads); the reference model records publishes "
            "in execution order, and for logger rows a message published at exactly the row time may or may not be included",
            "delivery is owed to the subscribers registered at the time of the publish",
            "bus/state_machine: a hypothesis.stateful RuleBasedStateMachine over the registry API (add publisher / subscriber / node, "
            "publish, wrong-type publish, init_params, set_param) with a dict-of-lists model and an invariant after every step; its "
            "evaluations are counted as one per campaign in the cell table (60 / 1500 machine runs of up to 40 steps each)",
            "estimator invariants are stated in message time (stamps); the minimum period in force is the value last broadcast "
            "before the later of two successive corrections",
        ],
        "require_classes": {"bus/scenario": ["logger", "late-subscriber-after-publish", "wrong-type", "reused-msg", "reused-msg-written-after-publish", "subscriber-before-publisher",
                                             "logger-period-update", "non-following-node", "relay"],
                            "estimator/scheduling": ["non-positive-dt", "too-early-correction-opportunity", "dt_min-update",
                                                     "accel>mag", "accel<mag"]},
        "matchers": {},
        "extra_coverage": fuzz.atheris_stats(["c20_bus", "c20_est"]),
    }
