"""C04 — adjoint maps and brackets agree with matrix conjugation and commutators."""
from __future__ import annotations

import math

import numpy as np
from hypothesis import strategies as st

from vlib import cy, gens, ref
from vlib.harness import Cell, Violation, require
from props import common_lie as L

PI = math.pi
RULE = (
    "Cases: generated group elements X, Y (all representations, angles 0..2pi stratified, translations N*10^k) and "
    "algebra elements x, y, z per group. Oracles: numpy conjugation M(X) hat(y) M(X)^-1 projected on the algebra "
    "basis (hat = cyecca's algebra to_Matrix on basis vectors, vee = least squares with closure check), matrix "
    "commutators, scipy expm of ad. Non-trivial: rotation angles > 1e-2, non-zero translations and, for "
    "non-abelian algebras, ||[x,y]|| > 1e-6; distinct = hash of (cell, inputs rounded to 9 digits)."
)
G_STRATA = ("zero", "tiny", "switch", "mid", "nearpi", "pi", "beyond")
A_STRATA = ("zero", "denormal", "tiny", "switch", "mid", "nearpi", "pi", "beyond")


def make_cells(gi, tier):
    nm = gi.name
    cells = []
    elem = gens.group_element(gi.layout, rot_strata=G_STRATA)
    alg = gens.algebra_element(gi.alg_layout, rot_strata=A_STRATA)
    algs = gens.algebra_element(gi.alg_layout, rot_strata=A_STRATA, scales=(-1, 0, 0, 0, 1))

    def encg(s):
        return gens.encode_element(s)

    def enca(s):
        return gens.encode_algebra(s)

    def nt_g(spec):
        return L.nontrivial_elem(spec)

    def nt_a(spec):
        angs, vs = gens.algebra_stats(spec)
        return all(a > 1e-2 for a in angs) and all(v > 0 for v in vs)

    def bracket_norm(x, y):
        A, B = L.hat(gi, x), L.hat(gi, y)
        return float(np.max(np.abs(A @ B - B @ A)))

    # ---- shapes
    def check_shape(case):
        X = encg(case["X"])
        x = enca(case["x"])
        n = gi.na
        try:
            Ad = gi.fn("Ad")(X)
            if Ad.shape != (n, n):
                raise Violation("%s: Ad has shape %s, expected (%d, %d)" % (nm, Ad.shape, n, n))
        except Exception as e:
            if type(e).__name__ == "NotOffered":
                pass
            else:
                raise
        ad = gi.fn("ad")(x)
        if ad.shape != (n, n):
            raise Violation("%s: ad has shape %s, expected (%d, %d)" % (nm, ad.shape, n, n))

    cells.append(Cell("%s/shape" % nm, st.fixed_dictionaries({"X": elem, "x": alg}), check_shape,
                      lambda c: nt_g(c["X"]) and nt_a(c["x"]), quick=20, thorough=100,
                      build=lambda: gi.fn("ad").build()))

    # ---- Ad is conjugation
    def check_conj(case):
        X = encg(case["X"])
        y = enca(case["y"])
        require(L.euler_input_ok(gi, X))
        MX = gi.toM(X)
        C = MX @ L.hat(gi, y) @ np.linalg.inv(MX)
        want, res = L.vee(gi, C)
        if res > 1e-7:
            raise Violation("%s: M(X) hat(y) M(X)^-1 is not in the algebra (closure residual %.2e)" % (nm, res),
                            X=X.tolist(), y=y.tolist())
        Ad = gi.fn("Ad")(X)
        if Ad.shape != (gi.na, gi.na):
            raise Violation("%s: Ad has shape %s, expected (%d, %d)" % (nm, Ad.shape, gi.na, gi.na))
        got = Ad @ y
        sc = (1 + float(np.max(np.abs(MX)))) ** 2 * (1 + float(np.max(np.abs(y))))
        L.close(got, want, "%s: Ad_X y vs vee(M(X) hat(y) M(X)^-1)" % nm, scale=sc, X=X.tolist(), y=y.tolist())

    cells.append(Cell("%s/conj" % nm, st.fixed_dictionaries({"X": elem, "y": alg}), check_conj,
                      lambda c: nt_g(c["X"]) and nt_a(c["y"]), quick=200, thorough=4000,
                      build=lambda: (gi.fn("Ad").build(), gi.fn("toM").build(), gi.fn("algM").build())))

    # ---- ad_x y = bracket(x, y) = (x*y).param
    def check_ad_bracket(case):
        x, y = enca(case["x"]), enca(case["y"])
        ad = gi.fn("ad")(x)
        if ad.shape != (gi.na, gi.na):
            raise Violation("%s: ad has shape %s, expected (%d, %d)" % (nm, ad.shape, gi.na, gi.na))
        br = cy.vec(gi.fn("bracket")(x, y))
        sc = (1 + float(np.max(np.abs(x)))) * (1 + float(np.max(np.abs(y))))
        L.close(ad @ y, br, "%s: ad_x y vs bracket(x,y)" % nm, scale=sc, x=x.tolist(), y=y.tolist())

    cells.append(Cell("%s/ad_bracket" % nm, st.fixed_dictionaries({"x": alg, "y": alg}), check_ad_bracket,
                      lambda c: nt_a(c["x"]) and nt_a(c["y"]) and (gi.abelian or bracket_norm(enca(c["x"]), enca(c["y"])) > 1e-6),
                      quick=200, thorough=4000,
                      build=lambda: (gi.fn("ad").build(), gi.fn("bracket").build())))

    # ---- bracket = matrix commutator (+ antisymmetry, Jacobi)
    def check_comm(case):
        x, y, z = enca(case["x"]), enca(case["y"]), enca(case["z"])
        A, B = L.hat(gi, x), L.hat(gi, y)
        br = cy.vec(gi.fn("bracket")(x, y))
        sc = (1 + float(np.max(np.abs(x)))) * (1 + float(np.max(np.abs(y))))
        L.close(L.hat(gi, br), A @ B - B @ A, "%s: hat([x,y]) vs hat(x)hat(y)-hat(y)hat(x)" % nm, scale=sc,
                x=x.tolist(), y=y.tolist())
        br2 = cy.vec(gi.fn("bracket")(y, x))
        L.close(br2, -br, "%s: [y,x] vs -[x,y]" % nm, scale=sc, x=x.tolist(), y=y.tolist())
        f = lambda a, b: cy.vec(gi.fn("bracket")(a, b))
        jac = f(x, f(y, z)) + f(y, f(z, x)) + f(z, f(x, y))
        sc3 = sc * (1 + float(np.max(np.abs(z))))
        L.close(jac, np.zeros_like(jac), "%s: Jacobi identity" % nm, scale=sc3, x=x.tolist(), y=y.tolist(), z=z.tolist())

    cells.append(Cell("%s/commutator" % nm, st.fixed_dictionaries({"x": alg, "y": alg, "z": alg}), check_comm,
                      lambda c: nt_a(c["x"]) and nt_a(c["y"]) and (gi.abelian or bracket_norm(enca(c["x"]), enca(c["y"])) > 1e-6),
                      quick=150, thorough=3000,
                      build=lambda: (gi.fn("bracket").build(), gi.fn("algM").build())))

    # ---- ad vs commutator directly (also covers direct sums where bracket is not offered)
    def check_ad_comm(case):
        x, y = enca(case["x"]), enca(case["y"])
        ad = gi.fn("ad")(x)
        if ad.shape != (gi.na, gi.na):
            raise Violation("%s: ad has shape %s, expected (%d, %d)" % (nm, ad.shape, gi.na, gi.na))
        A, B = L.hat(gi, x), L.hat(gi, y)
        sc = (1 + float(np.max(np.abs(x)))) * (1 + float(np.max(np.abs(y))))
        L.close(L.hat(gi, ad @ y), A @ B - B @ A, "%s: hat(ad_x y) vs matrix commutator" % nm, scale=sc,
                x=x.tolist(), y=y.tolist())
        if gi.factors:
            # block diagonal, acting per factor
            i0 = 0
            want = np.zeros((gi.na, gi.na))
            for f in gi.factors:
                want[i0:i0 + f.na, i0:i0 + f.na] = f.fn("ad")(x[i0:i0 + f.na])
                i0 += f.na
            L.close(ad, want, "%s: ad is block-diagonal of the factors' ad" % nm, scale=1 + float(np.max(np.abs(x))))

    cells.append(Cell("%s/ad_commutator" % nm, st.fixed_dictionaries({"x": alg, "y": alg}), check_ad_comm,
                      lambda c: nt_a(c["x"]) and nt_a(c["y"]) and (gi.abelian or bracket_norm(enca(c["x"]), enca(c["y"])) > 1e-6),
                      quick=150, thorough=3000,
                      build=lambda: (gi.fn("ad").build(), gi.fn("algM").build())))

    # ---- Ad_exp(x) = expm(ad_x)
    def check_adexp(case):
        x = enca(case)
        X = gi.exp(x)
        Ad = gi.fn("Ad")(X)
        ad = gi.fn("ad")(x)
        if ad.shape != (gi.na, gi.na) or Ad.shape != (gi.na, gi.na):
            raise Violation("%s: Ad/ad shapes %s/%s, expected (%d, %d)" % (nm, Ad.shape, ad.shape, gi.na, gi.na))
        want = ref.expm(ad)
        tol = 3 * L.BAND_TOL * (1 + float(np.max(np.abs(want)))) if L.band_result(gi, gi.toM(X)) else 1e-9
        L.close(Ad, want, "%s: Ad_exp(x) vs expm(ad_x)" % nm, atol=tol, scale=float(np.max(np.abs(want))) * (1 + float(np.max(np.abs(x)))),
                x=x.tolist())

    cells.append(Cell("%s/Adexp" % nm, algs, check_adexp, nt_a, quick=200, thorough=4000,
                      build=lambda: (gi.fn("Ad").build(), gi.fn("ad").build(), gi.fn("exp").build())))

    # ---- Ad is a homomorphism
    def check_adhom(case):
        X, Y = encg(case["X"]), encg(case["Y"])
        require(L.euler_input_ok(gi, X) and L.euler_input_ok(gi, Y))
        for a, b in zip(L.mrp_slices(gi, X), L.mrp_slices(gi, Y)):
            require(L.mrp_product_ok(a, b))
        AX, AY = gi.fn("Ad")(X), gi.fn("Ad")(Y)
        XY = gi.prod(X, Y)
        AXY = gi.fn("Ad")(XY)
        want = AX @ AY
        band = L.band_result(gi, gi.toM(X) @ gi.toM(Y))
        tol = 3 * L.BAND_TOL * (1 + float(np.max(np.abs(want)))) if band else 1e-9
        L.close(AXY, want, "%s: Ad_{XY} vs Ad_X Ad_Y" % nm, atol=tol, scale=float(np.max(np.abs(want))), X=X.tolist(), Y=Y.tolist())
        Xi = gi.inv(X)
        wi = np.linalg.inv(AX)
        bandi = L.band_result(gi, np.linalg.inv(gi.toM(X)))
        toli = 3 * L.BAND_TOL * (1 + float(np.max(np.abs(wi)))) if bandi else 1e-9
        L.close(gi.fn("Ad")(Xi), wi, "%s: Ad_{X^-1} vs inv(Ad_X)" % nm, atol=toli,
                scale=float(np.max(np.abs(wi))) * (1 + float(np.max(np.abs(AX)))), X=X.tolist())

    cells.append(Cell("%s/Adhom" % nm, st.fixed_dictionaries({"X": elem, "Y": elem}), check_adhom,
                      lambda c: nt_g(c["X"]) and nt_g(c["Y"]), quick=150, thorough=3000,
                      build=lambda: (gi.fn("Ad").build(), gi.fn("prod").build(), gi.fn("inv").build())))
    # ---- vector-space sugar of algebra elements (used by every law above through -x, s*x, x+y)
    def check_sugar(case):
        x, y, sc = enca(case["x"]), enca(case["y"]), case["s"]
        add, sub, neg, lm, rm, vee_, wedge_ = [cy.vec(o) for o in gi.fn("alg_sugar")(x, y, sc)]
        m = 1 + float(np.max(np.abs(x))) + float(np.max(np.abs(y)))
        for nm_, got, want in (("x + y", add, x + y), ("x - y", sub, x - y), ("-x", neg, -x), ("s * x", lm, sc * x), ("x * s", rm, sc * x),
                               ("vee(x)", vee_, x), ("wedge(param)", wedge_, x)):
            L.close(got, want, "%s: %s on algebra elements" % (nm, nm_), atol=1e-12 * m * (1 + abs(sc)), rtol=0)
        L.close(L.hat(gi, sub), L.hat(gi, x) - L.hat(gi, y), "%s: hat(x - y) vs hat(x) - hat(y)" % nm, atol=1e-12 * m, rtol=0)

    cells.append(Cell("%s/algebra_sugar" % nm, st.fixed_dictionaries({"x": alg, "y": alg, "s": gens.fl(-3.0, 3.0)}), check_sugar,
                      lambda c: nt_a(c["x"]) and nt_a(c["y"]), quick=40, thorough=500, build=lambda: gi.fn("alg_sugar").build()))

    # ---- matrix -> algebra element (vee of a matrix), where offered, inverts hat
    def check_alg_frommat(case):
        x = enca(case["x"])
        got = cy.vec(gi.fn("alg_fromM")(L.hat(gi, x)))
        L.close(got, x, "%s: algebra from_Matrix(to_Matrix(x)) vs x" % nm, atol=0, rtol=1e-15, x=x.tolist())

    cells.append(Cell("%s/algebra_frommat" % nm, st.fixed_dictionaries({"x": alg}), check_alg_frommat, lambda c: nt_a(c["x"]),
                      quick=40, thorough=500, build=lambda: gi.fn("alg_fromM").build()))

    # ---- element objects reused across several operations (in-place mutation / aliasing shows here)
    def mk_reuse():
        x, y, z = gi._x("x"), gi._x("y"), gi._x("z")
        X, Y, Z = gi.alg.elem(x), gi.alg.elem(y), gi.alg.elem(z)
        b1 = (X * Y).param
        b2 = (Y * X).param
        jac = (X * (Y * Z)).param + (Y * (Z * X)).param + (Z * (X * Y)).param
        adx_after = X.ad() @ Y.param  # X used again after it was an operand of several brackets
        b3 = (X * Y).param
        return [x, y, z], [cy.ca.densify(b1), cy.ca.densify(b2), cy.ca.densify(jac), cy.ca.densify(adx_after), cy.ca.densify(b3),
                           cy.ca.densify(X.param), cy.ca.densify(Y.param)]

    reuse = cy.Fn("%s_reuse" % nm.replace("*", "x").replace("(", "_").replace(")", ""), mk_reuse)

    def check_reuse(case):
        x, y, z = enca(case["x"]), enca(case["y"]), enca(case["z"])
        b1, b2, jac, adxy, b3, xp, yp = [cy.vec(o) for o in reuse(x, y, z)]
        A, B = L.hat(gi, x), L.hat(gi, y)
        want, res = L.vee(gi, A @ B - B @ A)
        sc = (1 + float(np.max(np.abs(x)))) * (1 + float(np.max(np.abs(y))))
        sc3 = sc * (1 + float(np.max(np.abs(z))))
        L.close(xp, x, "%s: element x changed after being used as a bracket operand" % nm, atol=0, rtol=0, scale=0.0)
        L.close(yp, y, "%s: element y changed after being used as a bracket operand" % nm, atol=0, rtol=0, scale=0.0)
        L.close(b1, want, "%s: [x,y] (objects reused) vs commutator" % nm, scale=sc)
        L.close(b2, -want, "%s: [y,x] (objects reused) vs -commutator" % nm, scale=sc)
        L.close(b3, want, "%s: [x,y] evaluated a second time on the same objects" % nm, scale=sc)
        L.close(adxy, want, "%s: ad_x y after x was used in brackets" % nm, scale=sc)
        L.close(jac, np.zeros_like(jac), "%s: Jacobi identity on reused element objects" % nm, scale=sc3)

    cells.append(Cell("%s/object_reuse" % nm, st.fixed_dictionaries({"x": algs, "y": algs, "z": algs}), check_reuse,
                      lambda c: nt_a(c["x"]) and nt_a(c["y"]), quick=100, thorough=2000, build=lambda: reuse.build()))

    # ---- the same API called on numeric (DM) parameters, in sequences with nearly identical inputs
    @st.composite
    def num_seq(draw):
        X = draw(elem)
        xs = draw(algs)
        pert = [draw(st.sampled_from([0.0, 1e-9, 1e-7, -1e-6, 1e-5])) for _ in range(draw(st.integers(1, 3)))]
        return {"X": X, "x": xs, "pert": pert, "d": draw(gens.vector(gi.n, scales=(0,), allow_zero=False)),
                "da": draw(gens.vector(gi.na, scales=(0,), allow_zero=False)), "y": draw(algs),
                # numeric operands with structurally special values: an exactly zero block in x, in y, or none
                "zero_slot": draw(st.sampled_from([None, None, "x", "y"])), "slot": draw(st.integers(0, len(gi.alg_layout) - 1))}

    def zero_slot(v, k):
        v = np.array(v, float)
        o = 0
        for i, sl in enumerate(gi.alg_layout):
            w = sl[1] if sl[0] == "vec" else 3 if sl[0] == "rotvec" else 1
            if i == k:
                v[o:o + w] = 0.0
            o += w
        return v

    def check_numeric(case):
        X0 = encg(case["X"])
        require(L.euler_input_ok(gi, X0))
        x0 = enca(case["x"])
        for eps in [0.0] + list(case["pert"]):
            X = X0 * (1 + eps * np.array(case["d"]))
            x = x0 + eps * np.array(case["da"])
            for key, arg in (("Ad", X), ("ad", x)):
                try:
                    want = gi.fn(key)(arg)
                except Exception as e:
                    if type(e).__name__ == "NotOffered":
                        continue
                    raise
                got = gi.numeric(key, arg)
                L.close(got, want, "%s: %s called on numeric parameters (after earlier numeric calls) vs the symbolic function" % (nm, key),
                        atol=1e-12, rtol=1e-12, scale=float(np.max(np.abs(want))), arg=np.asarray(arg).tolist(), eps=eps)
            if "y" in case:
                y = enca(case["y"])
                xb, yb = x, y
                if case.get("zero_slot") == "x":
                    xb = zero_slot(x, case["slot"])
                elif case.get("zero_slot") == "y":
                    yb = zero_slot(y, case["slot"])
                try:
                    want = cy.vec(gi.fn("bracket")(xb, yb))
                except Exception as e:
                    if type(e).__name__ == "NotOffered":
                        continue
                    raise
                got = cy.vec(gi.numeric("bracket", xb, yb))
                A, B = L.hat(gi, xb), L.hat(gi, yb)
                comm, _ = L.vee(gi, A @ B - B @ A)
                sc = (1 + float(np.max(np.abs(xb)))) * (1 + float(np.max(np.abs(yb))))
                L.close(got, want, "%s: bracket called on numeric parameters vs the symbolic function" % nm, scale=sc,
                        x=xb.tolist(), y=yb.tolist())
                L.close(got, comm, "%s: bracket called on numeric parameters vs the matrix commutator" % nm, scale=sc,
                        x=xb.tolist(), y=yb.tolist())

    cells.append(Cell("%s/numeric_mode" % nm, num_seq(), check_numeric, lambda c: nt_g(c["X"]), quick=40, thorough=600))
    return cells


def euler_variant_cell():
    def check(case):
        i = case["variant"]
        require(0 <= i < len(L.euler_variants()))
        name = L.euler_variants()[i][0]
        ang, y = np.array(case["ang"], float), np.array(case["y"], float)
        M = L.euler_variant_fn(i, "toM")(ang)
        Ad = L.euler_variant_fn(i, "Ad")(ang)
        if Ad.shape != (3, 3):
            raise Violation("%s: Ad has shape %s, expected (3, 3)" % (name, Ad.shape))
        want = ref.vee3(M @ ref.hat3(y) @ np.linalg.inv(M))
        L.close(Ad @ y, want, "%s: Ad_X y vs vee(M(X) hat(y) M(X)^-1)" % name, scale=1 + float(np.max(np.abs(y))), **case)

    return Cell("SO3EulerVariants/conj", L.euler_variant_case(), check, lambda c: sum(abs(a) > 1e-2 for a in c["ang"]) >= 2 and any(c["y"]),
                lambda c: [L.euler_variants()[c["variant"]][1]], quick=460, thorough=6000)


def build(tier):
    cells = []
    for gi in L.all_groups(tier):
        cells += make_cells(gi, tier)
    cells.append(euler_variant_cell())
    return {
        "cells": cells,
        "rule": RULE,
        "assumptions": [
            "hat = cyecca's algebra to_Matrix evaluated on basis vectors; vee = least-squares coordinates in that "
            "basis with a closure-residual check, so the oracle does not rely on index picking in from_Matrix",
            "operations that raise NotImplementedError when built (Ad and bracket of direct products) are out of scope",
            "Euler groups built from the exposed SO3EulerLieGroup class (body/space fixed x 12 proper axis sequences) are checked "
            "for Ad against conjugation with their own matrix form",
            "tolerance 1e-9 relative to the magnitude of the operands (translations up to 1e3 are generated)",
        ],
        "matchers": {},
    }
