"""Helpers shared by the Lie-group properties C01–C06."""
from __future__ import annotations

import math

import numpy as np
from hypothesis import strategies as st
from vlib.harness import require as assume

from vlib import cy, gens, ref
from vlib.harness import Violation

PI = math.pi
BAND = 1e-3
BAND_TOL = 2.5e-3  # geodesic tolerance inside the Euler gimbal band (2*band + slack)


def all_groups(tier, products=True):
    R = cy.registry()
    out = list(R.values())
    if products:
        names = cy.PRODUCTS_QUICK if tier == "quick" else cy.PRODUCTS_THOROUGH
        out += [cy.product_info(n) for n in names]
    return out


def has_rep(gi, rep):
    return any(s[0] == "rot" and s[1] == rep for s in gi.layout)


def quat_q0_product(specs):
    """q0 of the composite rotation R1 R2 ... (sign-sensitive), from axis/angle/sign."""
    q = np.array([1.0, 0, 0, 0])
    for s in specs:
        q = ref.quat_mul(q, ref.quat_from_axis_angle(s["axis"], s["angle"], 1.0))
    return q


def mrp_quat(r):
    r = np.asarray(r, float)
    n2 = float(r @ r)
    return np.array([(1 - n2) / (1 + n2), *(2 * r / (1 + n2))])


def mrp_product_ok(pa, pb, thresh=1e-2):
    """MRP composition is singular when the composite quaternion (built from the operands' own
    quaternions) has scalar part -1 (the 360-degree point). Keep away from it."""
    q = ref.quat_mul(mrp_quat(pa), mrp_quat(pb))
    q = q / np.linalg.norm(q)
    return (1.0 + q[0]) >= thresh


def mrp_slices(gi, p):
    return [a for (slot, a) in gens.split_params(p, gi.layout) if slot[0] == "rot" and slot[1] == "mrp"]


def euler_slices(gi, p):
    return [a for (slot, a) in gens.split_params(p, gi.layout) if slot[0] == "rot" and slot[1] == "euler"]


def euler_input_ok(gi, p, margin=1e-4):
    for e in euler_slices(gi, p):
        if gens.euler_in_band(e[1], BAND, margin):
            return False
    return True


def rot_blocks(gi):
    """Index ranges (row/col start) of 3x3 rotation blocks of Euler slots inside the group matrix,
    used to decide whether an expected result lies inside the gimbal band."""
    blocks = []
    r0 = 0
    infos = gi.factors or [gi]
    for f in infos:
        for slot in f.layout:
            if slot[0] == "rot" and slot[1] == "euler":
                blocks.append(r0)
        r0 += f.mshape[0]
    return blocks


def band_result(gi, Mexp):
    """True if some Euler-parameterised rotation block of the expected matrix has pitch inside the
    gimbal band (then equality only holds to the documented band tolerance)."""
    for r0 in rot_blocks(gi):
        s = -Mexp[r0 + 2, r0]
        s = max(-1.0, min(1.0, s))
        th = math.asin(s)
        if gens.euler_in_band(th, BAND, 1e-6):
            return True
    return False


def close(got, want, what, atol=1e-9, rtol=1e-9, scale=None, **details):
    got = np.asarray(got, float)
    want = np.asarray(want, float)
    if got.shape != want.shape:
        raise Violation("%s: shape %s != expected %s" % (what, got.shape, want.shape), **details)
    if not np.all(np.isfinite(got)):
        raise Violation("%s: non-finite output %s" % (what, np.array2string(got, precision=6)), **details)
    sc = float(np.max(np.abs(want))) if scale is None else float(scale)
    tol = atol + rtol * sc
    err = float(np.max(np.abs(got - want))) if got.size else 0.0
    if err > tol:
        raise Violation(
            "%s: max |got-want| = %.3e > tol %.3e" % (what, err, tol),
            got=got.tolist(), want=want.tolist(), err=err, tol=tol, **details)
    return err


def mat_tol(gi, Mexp):
    """(atol) to use for a matrix comparison: band tolerance if an Euler block is in the band."""
    return BAND_TOL if band_result(gi, Mexp) else 1e-9


def elem_strategy(gi, **kw):
    return gens.group_element(gi.layout, **kw)


def nontrivial_elem(spec, amin=1e-2):
    angs, vs = gens.element_stats(spec)
    return all(a > amin for a in angs) and all(v > 0 for v in vs)


def basis_matrices(gi):
    """Numeric basis E_i = hat(e_i) of the algebra (cyecca's own algebra to_Matrix)."""
    if not hasattr(gi, "_basis"):
        E = []
        for i in range(gi.na):
            e = np.zeros(gi.na)
            e[i] = 1.0
            E.append(gi.algM(e))
        gi._basis = E
        A = np.stack([e.reshape(-1) for e in E], axis=1)
        gi._basis_A = A
        gi._basis_pinv = np.linalg.pinv(A)
    return gi._basis


def hat(gi, x):
    E = basis_matrices(gi)
    return sum(float(x[i]) * E[i] for i in range(gi.na))


def vee(gi, M, what="vee", tol=1e-8):
    """Least-squares coordinates of a matrix in the algebra basis, with closure check."""
    basis_matrices(gi)
    m = np.asarray(M, float).reshape(-1)
    x = gi._basis_pinv @ m
    res = float(np.max(np.abs(gi._basis_A @ x - m))) if m.size else 0.0
    sc = 1.0 + float(np.max(np.abs(m))) if m.size else 1.0
    return x, res / sc


# ---- Euler groups other than the shipped B321 singleton -----------------------------------------------------------
# SO3EulerLieGroup is an exposed class: users construct other conventions with SO3EulerLieGroup(euler_type, sequence).
# For those only the operations that do not go through from_Matrix are offered (matrix form, identity, Ad, log, the
# action on vectors); the others raise NotImplementedError and are out of scope.
EULER_SEQS = ["zyx", "xyz", "zxz", "xzx", "yxz", "zxy", "yzy", "xzy", "yxy", "zyz", "xyx", "yzx"]
_EV = {}


def euler_variants():
    """[(name, type, seq, group)] for body- and space-fixed groups of every proper axis sequence."""
    if "v" not in _EV:
        with cy.quiet():
            from cyecca.lie import group_so3 as g3
        out = []
        for ty in ("body_fixed", "space_fixed"):
            for seq in EULER_SEQS:
                if ty == "body_fixed" and seq == "zyx":
                    continue  # the shipped SO3EulerB321, covered by the main registry
                with cy.quiet():
                    G = g3.SO3EulerLieGroup(euler_type=getattr(g3.EulerType, ty), sequence=[getattr(g3.Axis, a) for a in seq])
                out.append(("SO3Euler[%s,%s]" % (ty, seq), ty, seq, G))
        _EV["v"] = out
    return _EV["v"]


def euler_variant_matrix(ty, seq, ang):
    """Oracle: product of elementary rotations; body-fixed (intrinsic) composes on the right, space-fixed on the left."""
    el = {"x": ref.Rx, "y": ref.Ry, "z": ref.Rz}
    m = np.eye(3)
    for a, t in zip(seq, ang):
        m = m @ el[a](t) if ty == "body_fixed" else el[a](t) @ m
    return m


def euler_variant_fn(i, key):
    name, ty, seq, G = euler_variants()[i]
    k = (i, key)
    if k not in _EV:
        def mk():
            ca = cy.ca
            X = ca.SX.sym("X", 3)
            if key == "toM":
                return [X], [ca.densify(G.elem(X).to_Matrix())]
            if key == "Ad":
                return [X], [ca.densify(G.elem(X).Ad())]
            if key == "log":
                return [X], [ca.densify(G.elem(X).log().param)]
            if key == "ident":
                return [], [ca.densify(G.identity().to_Matrix())]
            if key == "act":
                v = ca.SX.sym("v", 3)
                return [X, v], [ca.densify(G.elem(X) @ v)]
            raise KeyError(key)

        _EV[k] = cy.Fn("eulervar%d_%s" % (i, key), mk)
    return _EV[k]


@st.composite
def euler_variant_case(draw):
    i = draw(st.integers(0, len(EULER_SEQS) * 2 - 2))
    special = [0.0, 1e-9, PI / 2, -PI / 2, PI, 0.3, -1.1, 2.5]
    ang = [draw(st.sampled_from(special)) if draw(st.integers(0, 3)) == 0 else draw(gens.fl(-PI, PI)) for _ in range(3)]
    return {"variant": i, "ang": ang, "y": draw(gens.vector(3, scales=(-1, 0, 1)))}
