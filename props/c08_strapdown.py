"""C08 — strapdown INS propagation on SE_2(3) is the exact flow of the IMU kinematics."""
from __future__ import annotations

import math

import mpmath as mp
import numpy as np
from hypothesis import strategies as st

from vlib import cy, gens, ref
from vlib.harness import Cell, Violation, require
from props import common_lie as L

ca = cy.ca
PI = math.pi
DPS = 40
RULE = (
    "Cases: x0 = (p N*10^k k<=3, v N*10^k k<=2, unit q of either sign), specific force a_b N*10^k k<=2, gravity in "
    "[-20, 20] (either sign convention), dt in {0} U [1e-4, 5], angular rate = axis*theta/dt with theta = |w|dt forced through {0, denormal, tiny, "
    "both series switches to the ulp, (1e-2, pi), pi, (pi, 2pi), (2pi, 150)}; sequences of 1..12 piecewise-constant "
    "steps. Oracle: Van-Loan augmented matrix exponential exp([[W, a, 0],[0,0,1],[0,0,0]] dt) in mpmath at 40 digits "
    "(no numerical integrator). Non-trivial: |w|dt > 0.1, a != 0, v0 != 0; sequences with >= 3 steps; distinct = hash of "
    "(cell, inputs rounded to 9 digits)."
)
TH_STRATA = ("zero", "denormal", "tiny", "switch", "mid", "pi", "beyond", "large")

_f = {}


def ins_fn():
    if "ins" not in _f:
        def mk():
            import os
            os.environ.setdefault("MPLBACKEND", "Agg")
            import cyecca.models.rdd2 as rdd2

            f = rdd2.derive_strapdown_ins_propagation()["strapdown_ins_propagate"]
            _f["ins_raw"] = f
            ins = [ca.SX.sym("x0", 10), ca.SX.sym("a", 3), ca.SX.sym("w", 3), ca.SX.sym("g"), ca.SX.sym("dt")]
            return ins, [ca.densify(f(*ins))]

        _f["ins"] = cy.Fn("strapdown", mk)
    return _f["ins"]


def mixed_fn(gname):
    key = "mixed_" + gname
    if key not in _f:
        gi = cy.registry()[gname]

        def mk(gi=gi):
            G = gi.G
            X0 = ca.SX.sym("X0", gi.n)
            a, w, g, dt = ca.SX.sym("a", 3), ca.SX.sym("w", 3), ca.SX.sym("g"), ca.SX.sym("dt")
            l = cy.lie.se23.elem(ca.vertcat(0, 0, 0, a, w))
            r = cy.lie.se23.elem(ca.vertcat(0, 0, 0, 0, 0, -g, 0, 0, 0))
            B = ca.sparsify(ca.SX([[0, 1], [0, 0]]))
            X1 = G.exp_mixed(G.elem(X0), l * dt, r * dt, B * dt)
            return [X0, a, w, g, dt], [ca.densify(X1.param)]

        _f[key] = cy.Fn(key.replace("(", "_").replace(")", ""), mk)
    return _f[key]


# ---- oracle ---------------------------------------------------------------------------

def mpv(v):
    return [mp.mpf(float(a)) for a in v]


def oracle_step(p, v, Rm, a, w, g, dt):
    """(p, v, R) in mp after dt under constant body-frame a, w and gravity g."""
    with mp.workdps(DPS + 10):
        a, w = mpv(a), mpv(w)
        g, dt = mp.mpf(float(g)), mp.mpf(float(dt))
        M = mp.zeros(5)
        K = ref.mp_hat3(w)
        for i in range(3):
            for j in range(3):
                M[i, j] = K[i, j] * dt
            M[i, 3] = a[i] * dt
        M[3, 4] = dt
        E5 = ref.mp_expm(M, DPS)
        E = E5[0:3, 0:3]
        Ia = E5[0:3, 3]
        IIa = E5[0:3, 4]
        R1 = Rm * E
        dv = Rm * Ia
        dp = Rm * IIa
        v1 = [v[i] + dv[i] - (g * dt if i == 2 else 0) for i in range(3)]
        p1 = [p[i] + v[i] * dt + dp[i] - (g * dt * dt / 2 if i == 2 else 0) for i in range(3)]
        return p1, v1, R1


def mp_quat_R(q):
    a, b, c, d = mpv(q)
    n2 = a * a + b * b + c * c + d * d
    R = mp.matrix([
        [a * a + b * b - c * c - d * d, 2 * (b * c - a * d), 2 * (b * d + a * c)],
        [2 * (b * c + a * d), a * a - b * b + c * c - d * d, 2 * (c * d - a * b)],
        [2 * (b * d - a * c), 2 * (c * d + a * b), a * a - b * b - c * c + d * d]])
    return R / n2


def scales(x0, a, g, dt):
    p0, v0 = np.asarray(x0[0:3]), np.asarray(x0[3:6])
    na = float(np.linalg.norm(a)) + abs(g)
    sp = 1.0 + float(np.linalg.norm(p0)) + float(np.linalg.norm(v0)) * dt + na * dt * dt / 2
    sv = 1.0 + float(np.linalg.norm(v0)) + na * dt
    return sp, sv


# ---- generators -----------------------------------------------------------------------

@st.composite
def theta(draw, strata=TH_STRATA):
    s = draw(st.sampled_from(list(strata)))
    if s == "large":
        return draw(gens.fl(2 * PI, 150.0)), s
    th, s2 = draw(gens.angle(strata=(s,), max_angle=2 * PI - 1e-3))
    return th, s


@st.composite
def inputs(draw, strata=TH_STRATA, allow_dt0=False):
    th, s = draw(theta(strata))
    if allow_dt0 and draw(st.integers(0, 9)) == 0:
        dt = 0.0
    else:
        dt = 10.0 ** draw(gens.fl(-4.0, math.log10(5.0)))
    ax = draw(gens.axis())
    w = [a * th / dt for a in ax] if dt > 0 else draw(gens.vector(3, scales=(0, 1)))
    if max(abs(c) for c in w) > 1e6:  # theta/dt beyond any gyro: rescale dt instead
        dt = max(dt, th / 1e3)
        w = [a * th / dt for a in ax]
    return {"a": draw(gens.vector(3, scales=(-2, -1, 0, 0, 1, 1, 2))), "w": w, "theta": th, "stratum": s,
            "g": draw(st.sampled_from([0.0, 9.8, 9.80665, 20.0, -9.8])) if draw(st.booleans()) else draw(gens.fl(-20.0, 20.0)),
            "dt": dt}


@st.composite
def state(draw):
    return {"p": draw(gens.vector(3, scales=(-1, 0, 0, 1, 2, 3))), "v": draw(gens.vector(3, scales=(-2, -1, 0, 0, 1, 2))),
            "rot": draw(gens.rotation(strata=("zero", "tiny", "mid", "mid", "nearpi", "pi", "beyond")))}


def x0_of(stt, rep="quat"):
    return np.array(list(stt["p"]) + list(stt["v"]) + list(gens.encode_rot(stt["rot"], rep)), float)


def nontrivial(case):
    u = case["u"] if "u" in case else case["steps"][0]
    return (u["theta"] > 0.1 and float(np.linalg.norm(u["a"])) > 0 and float(np.linalg.norm(case["x0"]["v"])) > 0)


def classify(case):
    if "steps" in case:
        return ["len:%d" % len(case["steps"])] + ["theta:" + u["stratum"] for u in case["steps"]]
    return ["theta:" + case["u"]["stratum"], "dt0" if case["u"]["dt"] == 0 else "dt>0",
            "qsign:%d" % case["x0"]["rot"]["sign"]]


def compare_state(x1, p1, v1, R1, sp, sv, what, tol=1e-11, **d):
    x1 = np.asarray(x1, float)
    if not np.all(np.isfinite(x1)):
        raise Violation("%s: non-finite output %s" % (what, x1.tolist()), **d)
    pw = np.array([float(a) for a in p1])
    vw = np.array([float(a) for a in v1])
    Rw = ref.mp_to_np(R1)
    L.close(x1[0:3], pw, what + ": position vs exact flow", atol=tol * sp, rtol=0, **d)
    L.close(x1[3:6], vw, what + ": velocity vs exact flow", atol=tol * sv, rtol=0, **d)
    q = x1[6:10]
    L.close(ref.quat_to_R(q / np.linalg.norm(q)), Rw, what + ": attitude vs exact flow", atol=1e-11, rtol=0, **d)


def make_cells(tier):
    cells = []
    one = st.fixed_dictionaries({"x0": state(), "u": inputs(allow_dt0=True)})
    one_strat = {s_: st.fixed_dictionaries({"x0": state(), "u": inputs(strata=(s_,))}) for s_ in TH_STRATA}
    one_strat["mixed"] = one

    def run_ins(x0, u, dt=None):
        return cy.vec(ins_fn()(x0, u["a"], u["w"], u["g"], u["dt"] if dt is None else dt))

    def check_flow(case):
        x0 = x0_of(case["x0"])
        u = case["u"]
        x1 = run_ins(x0, u)
        with mp.workdps(DPS + 10):
            p1, v1, R1 = oracle_step(mpv(x0[0:3]), mpv(x0[3:6]), mp_quat_R(x0[6:10]), u["a"], u["w"], u["g"], u["dt"])
        sp, sv = scales(x0, u["a"], u["g"], u["dt"])
        compare_state(x1, p1, v1, R1, sp, sv, "strapdown_ins_propagate", x0=x0.tolist(), u=u)
        n = float(np.linalg.norm(x1[6:10]))
        if abs(n - 1) > 1e-12:
            raise Violation("strapdown_ins_propagate: |q1| - 1 = %.3e after one step from a unit quaternion" % (n - 1),
                            x0=x0.tolist(), u=u)

    cells.append(Cell("ins/flow", one_strat, check_flow, nontrivial, classify, quick=450, thorough=9000,
                      build=lambda: ins_fn().build()))

    def check_dt0(case):
        x0 = x0_of(case["x0"])
        u = dict(case["u"], dt=0.0)
        x1 = run_ins(x0, u)
        sp, sv = scales(x0, u["a"], u["g"], 0.0)
        L.close(x1[0:3], x0[0:3], "dt = 0: position unchanged", atol=1e-13 * sp, rtol=0, x0=x0.tolist(), u=u)
        L.close(x1[3:6], x0[3:6], "dt = 0: velocity unchanged", atol=1e-13 * sv, rtol=0, x0=x0.tolist(), u=u)
        L.close(x1[6:10], x0[6:10], "dt = 0: quaternion unchanged", atol=1e-14, rtol=0, x0=x0.tolist(), u=u)

    cells.append(Cell("ins/dt0", one, check_dt0, lambda c: float(np.linalg.norm(c["u"]["w"])) > 0, classify,
                      quick=100, thorough=1500))

    @st.composite
    def semi(draw):
        c = draw(one)
        c["frac"] = draw(gens.fl(0.0, 1.0)) if draw(st.integers(0, 5)) else draw(st.sampled_from([0.0, 1.0, 0.5]))
        return c

    def check_semigroup(case):
        x0 = x0_of(case["x0"])
        u = case["u"]
        dt = u["dt"]
        dt1 = dt * case["frac"]
        dt2 = dt - dt1
        xa = run_ins(run_ins(x0, u, dt1), u, dt2)
        xb = run_ins(x0, u, dt1 + dt2)
        sp, sv = scales(x0, u["a"], u["g"], dt)
        L.close(xa[0:3], xb[0:3], "semigroup: position f(dt2) o f(dt1) vs f(dt1+dt2)", atol=2e-11 * sp, rtol=0, x0=x0.tolist(), u=u, dt1=dt1, dt2=dt2)
        L.close(xa[3:6], xb[3:6], "semigroup: velocity", atol=2e-11 * sv, rtol=0, x0=x0.tolist(), u=u, dt1=dt1, dt2=dt2)
        L.close(ref.quat_to_R(xa[6:10]), ref.quat_to_R(xb[6:10]), "semigroup: attitude", atol=2e-11, rtol=0, x0=x0.tolist(), u=u, dt1=dt1, dt2=dt2)

    cells.append(Cell("ins/semigroup", semi(), check_semigroup, nontrivial, classify, quick=300, thorough=6000))

    @st.composite
    def seq(draw):
        n = draw(st.integers(1, 12))
        return {"x0": draw(state()), "steps": [draw(inputs(strata=("zero", "tiny", "switch", "mid", "pi", "beyond", "large")))
                                               for _ in range(n)]}

    def check_chain(case):
        x0 = x0_of(case["x0"])
        x = x0.copy()
        with mp.workdps(DPS + 10):
            p, v, Rm = mpv(x0[0:3]), mpv(x0[3:6]), mp_quat_R(x0[6:10])
            sp = sv = 1.0
            for u in case["steps"]:
                x = run_ins(x, u)
                p, v, Rm = oracle_step(p, v, Rm, u["a"], u["w"], u["g"], u["dt"])
                a_, b_ = scales(x, u["a"], u["g"], u["dt"])
                sp, sv = max(sp, a_), max(sv, b_)
                sp = max(sp, sv * u["dt"])
        n = len(case["steps"])
        T = sum(u["dt"] for u in case["steps"])
        compare_state(x, p, v, Rm, sp * (1 + T), sv, "chain of %d steps" % n, tol=1e-11 * n, x0=x0.tolist(), steps=case["steps"])
        qn = float(np.linalg.norm(x[6:10]))
        if abs(qn - 1) > 1e-10:
            raise Violation("chain of %d steps: |q| - 1 = %.3e" % (n, qn - 1), x0=x0.tolist(), steps=case["steps"])

    cells.append(Cell("ins/chain", seq(), check_chain, lambda c: len(c["steps"]) >= 3 and nontrivial(c), classify,
                      quick=120, thorough=2500))

    # long histories at IMU rate: the output is fed back as the next input for 40..300 steps with constant body-frame inputs, so
    # the exact flow over the whole history is one oracle step of n * dt (semigroup); the quaternion must stay unit throughout
    @st.composite
    def long_seq(draw):
        u = draw(inputs(strata=("tiny", "switch", "mid", "mid")))
        u["dt"] = draw(st.sampled_from([1 / 400.0, 0.005, 0.01, 0.02, 1 / 3200.0]))
        rate = draw(st.sampled_from([0.0, 0.2, 1.0, 5.0, 20.0]))  # body rate in rad/s (the drawn direction is kept)
        w = np.array(u["w"], float)
        nw = float(np.linalg.norm(w))
        u["w"] = list(w / nw * rate) if nw > 0 else [rate, 0.0, 0.0]
        return {"x0": draw(state()), "u": u, "n": draw(st.sampled_from([40, 100, 300]))}

    def check_long(case):
        n, u = case["n"], case["u"]
        require(n in (40, 100, 300) and 1e-5 <= u["dt"] <= 0.05)
        x0 = x0_of(case["x0"])
        x = x0.copy()
        worst = 0.0
        for k in range(n):
            x = run_ins(x, u)
            worst = max(worst, abs(float(np.linalg.norm(x[6:10])) - 1))
        if worst > 1e-13 * n + 1e-12:
            raise Violation("history of %d steps: the quaternion norm drifts from 1 by %.3e" % (n, worst), x0=x0.tolist(), u=u)
        T = n * u["dt"]
        with mp.workdps(DPS + 10):
            p, v, Rm = oracle_step(mpv(x0[0:3]), mpv(x0[3:6]), mp_quat_R(x0[6:10]), u["a"], u["w"], u["g"], T)
        sp, sv = scales(x0, u["a"], u["g"], T)
        compare_state(x, p, v, Rm, sp * (1 + T), sv, "history of %d steps of %g s vs the exact flow over %g s" % (n, u["dt"], T), tol=2e-12 * n,
                      x0=x0.tolist(), u=u)

    cells.append(Cell("ins/long_history", long_seq(), check_long,
                      lambda c: float(np.linalg.norm(c["u"]["w"])) * c["u"]["dt"] * c["n"] > 0.1 and float(np.linalg.norm(c["u"]["a"])) > 0,
                      lambda c: ["n=%d" % c["n"]], quick=40, thorough=600))

    # exp_mixed called directly on other SE_2(3) parameterisations
    for gname, rep in (("SE23Mrp", "mrp"), ("SE23(Dcm)", "dcm")):
        gi = cy.registry()[gname]

        def check_mixed(case, gi=gi, rep=rep, gname=gname):
            stt = case["x0"]
            if rep == "mrp":
                stt = dict(stt, rot=dict(stt["rot"], shadow=False))
                require(stt["rot"]["angle"] <= PI)
            X0 = x0_of(stt, rep)
            u = case["u"]
            R0 = gens.rot_R(stt["rot"])
            if rep == "mrp":
                # the MRP product R0 * exp(w dt) must stay away from the 360-degree singularity
                E = ref.rotvec_to_R(np.array(u["w"]) * u["dt"])
                r0 = np.array(gens.encode_rot(stt["rot"], "mrp"))
                wdt = np.array(u["w"]) * u["dt"]
                thw = float(np.linalg.norm(wdt))
                rl = (math.tan(thw / 4) / thw) * wdt if thw > 0 else np.zeros(3)
                require(np.all(np.isfinite(rl)) and float(rl @ rl) < 1e12)
                if abs(float(rl @ rl) - 1) < 1e-9:
                    # half-turn increment: |r| = 1 up to rounding, either representative may come out of cyecca's exp
                    require(L.mrp_product_ok(r0, rl, 5e-2) and L.mrp_product_ok(r0, -rl / float(rl @ rl), 5e-2))
                if float(rl @ rl) > 1:
                    rl = -rl / float(rl @ rl)  # cyecca's exp returns the non-shadow MRP
                require(L.mrp_product_ok(r0, rl, 5e-2))
            X1 = cy.vec(mixed_fn(gname)(X0, u["a"], u["w"], u["g"], u["dt"]))
            with mp.workdps(DPS + 10):
                p1, v1, R1 = oracle_step(mpv(X0[0:3]), mpv(X0[3:6]), ref.mp_matrix(R0), u["a"], u["w"], u["g"], u["dt"])
            sp, sv = scales(X0, u["a"], u["g"], u["dt"])
            M1 = gi.toM(X1)
            L.close(X1[0:3], [float(a) for a in p1], gname + ".exp_mixed: position vs exact flow", atol=1e-10 * sp, rtol=0, X0=X0.tolist(), u=u)
            L.close(X1[3:6], [float(a) for a in v1], gname + ".exp_mixed: velocity vs exact flow", atol=1e-10 * sv, rtol=0, X0=X0.tolist(), u=u)
            L.close(M1[0:3, 0:3], ref.mp_to_np(R1), gname + ".exp_mixed: attitude vs exact flow", atol=1e-9, rtol=0, X0=X0.tolist(), u=u)
            # the same call on numeric (DM) operands
            G = gi.G
            with cy.quiet():
                l = cy.lie.se23.elem(ca.DM([0, 0, 0] + [float(x) for x in u["a"]] + [float(x) for x in u["w"]]))
                r = cy.lie.se23.elem(ca.DM([0, 0, 0, 0, 0, -float(u["g"]), 0, 0, 0]))
                B = ca.sparsify(ca.SX([[0, 1], [0, 0]]))
                Xn = G.exp_mixed(G.elem(ca.DM(X0)), l * float(u["dt"]), r * float(u["dt"]), B * float(u["dt"]))
                X1n = cy.vec(cy.arr(ca.evalf(ca.densify(ca.SX(Xn.param)))))
            L.close(gi.toM(X1n), M1, gname + ".exp_mixed called on numeric operands vs the symbolic function (matrix form)",
                    atol=1e-11 * (1 + float(np.max(np.abs(M1)))), rtol=0, X0=X0.tolist(), u=u)

        cells.append(Cell("%s/exp_mixed" % gname, one, check_mixed, nontrivial, classify, quick=200, thorough=4000,
                          build=lambda gname=gname: mixed_fn(gname).build()))
    return cells


def build(tier):
    return {
        "cells": make_cells(tier),
        "rule": RULE,
        "assumptions": [
            "reference: mpmath 40-digit exponential of the Van-Loan augmented matrix (closed-form flow of p'=v, v'=R a - g e3, "
            "R'=R[w]x for constant a, w); tolerance 1e-11 relative to 1+|p0|+|v0|dt+(|a|+g)dt^2/2 (position), "
            "1+|v0|+(|a|+g)dt (velocity), 1e-11 on rotation matrix entries",
            "input quaternions are unit to round-off; the function is evaluated exactly as generated by "
            "cyecca.models.rdd2.derive_strapdown_ins_propagation()",
            "exp_mixed on SE23Mrp is only compared when the MRP composition stays 5e-2 away from its 360-degree singularity",
        ],
        "require_classes": {"ins/flow": ["theta:" + s for s in TH_STRATA]},
        "matchers": {},
    }
