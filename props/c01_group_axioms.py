"""C01 — every exposed Lie group obeys the group axioms under its matrix representation."""
from __future__ import annotations

import numpy as np
from hypothesis import strategies as st
from vlib.harness import require as assume

from vlib import cy, gens, ref
from vlib.harness import Cell, Violation, require
from props import common_lie as L
import math
PI = math.pi

RULE = (
    "Cases: Hypothesis-generated pairs/triples of valid elements per group (stratified rotation angle 0..2pi incl. "
    "exact 0/pi and series switches, quaternion sign +-, MRP principal/shadow set, DCM, Euler outside the gimbal "
    "band, translations N*10^k k=-3..3 incl. zeros). Non-trivial: every rotation slot of every operand has "
    "angle > 1e-2, every translation slot is non-zero, and for non-abelian groups ||XY-YX|| > 1e-6; distinct = "
    "hash of (cell, inputs rounded to 9 digits)."
)


def _valid_inputs(gi, ps):
    for p in ps:
        if not L.euler_input_ok(gi, p):
            return False
    return True


def _mrp_pairs_ok(gi, pa, pb):
    for a, b in zip(L.mrp_slices(gi, pa), L.mrp_slices(gi, pb)):
        if not L.mrp_product_ok(a, b):
            return False
    return True


def make_cells(gi, tier):
    cells = []
    nm = gi.name
    elem = L.elem_strategy(gi)

    def enc(spec):
        return gens.encode_element(spec)

    def nontrivial(case):
        specs = case if isinstance(case, list) and case and isinstance(case[0], list) else [case]
        if not all(L.nontrivial_elem(s) for s in specs):
            return False
        if len(specs) >= 2 and not gi.abelian:
            X, Y = enc(specs[0]), enc(specs[1])
            MX, MY = gi.toM(X), gi.toM(Y)
            return float(np.max(np.abs(MX @ MY - MY @ MX))) > 1e-6
        return True

    def classify(case):
        specs = case if isinstance(case, list) and case and isinstance(case[0], list) else [case]
        out = []
        for s in specs:
            for sl in s:
                if "rot" in sl:
                    out.append("rot:" + sl["rot"]["stratum"])
                    if sl["rep"] == "quat":
                        out.append("quat_sign:%+d" % int(sl["rot"]["sign"]))
                    if sl["rep"] == "mrp":
                        out.append("mrp_shadow:%s" % sl["rot"]["shadow"])
        return out or ["plain"]

    # ---- hom
    def check_hom(case):
        X, Y = enc(case[0]), enc(case[1])
        assume(_valid_inputs(gi, [X, Y]) and _mrp_pairs_ok(gi, X, Y))
        MX, MY = gi.toM(X), gi.toM(Y)
        want = MX @ MY
        got = gi.toM(gi.prod(X, Y))
        L.close(got, want, "%s: M(X*Y) vs M(X)@M(Y)" % nm, atol=L.mat_tol(gi, want), X=X.tolist(), Y=Y.tolist())

    cells.append(Cell("%s/hom" % nm, st.lists(elem, min_size=2, max_size=2), check_hom, nontrivial, classify,
                      quick=150, thorough=4000, build=lambda: (gi.fn("toM").build(), gi.fn("prod").build())))

    # ---- inverse
    def check_inv(case):
        X = enc(case)
        assume(_valid_inputs(gi, [X]))
        MX = gi.toM(X)
        Xi = gi.inv(X)
        Mi = gi.toM(Xi)
        I = np.eye(MX.shape[0])
        want_inv = np.linalg.inv(MX)
        tol = L.mat_tol(gi, want_inv)
        sc = float(np.max(np.abs(want_inv)))
        L.close(Mi, want_inv, "%s: M(X^-1) vs inv(M(X))" % nm, atol=tol, scale=sc, X=X.tolist())
        sc2 = float(np.max(np.abs(MX))) * sc
        L.close(Mi @ MX, I, "%s: M(X^-1)M(X) vs I" % nm, atol=tol, scale=sc2, X=X.tolist())
        L.close(MX @ Mi, I, "%s: M(X)M(X^-1) vs I" % nm, atol=tol, scale=sc2, X=X.tolist())

    cells.append(Cell("%s/inv" % nm, elem, check_inv, nontrivial, classify, quick=150, thorough=4000,
                      build=lambda: (gi.fn("toM").build(), gi.fn("inv").build())))

    # ---- identity
    def check_ident(case):
        X = enc(case)
        assume(_valid_inputs(gi, [X]))
        e = gi.ident()
        Me = gi.toM(e)
        if tuple(gi.G.matrix_shape) != Me.shape or gi.G.n_param != e.shape[0]:
            raise Violation("%s: declared matrix_shape %s / n_param %d differ from the actual matrix %s / identity length %d" % (
                nm, tuple(gi.G.matrix_shape), gi.G.n_param, Me.shape, e.shape[0]))
        Ma = gi.algM(np.zeros(gi.na))
        if tuple(gi.alg.matrix_shape) != Ma.shape or Ma.shape != Me.shape:
            raise Violation("%s: algebra matrix_shape %s / actual %s differ from the group's matrix shape %s" % (
                nm, tuple(gi.alg.matrix_shape), Ma.shape, Me.shape))
        L.close(Me, np.eye(Me.shape[0]), "%s: M(identity) vs I" % nm, identity_param=e.tolist())
        MX = gi.toM(X)
        tol = L.mat_tol(gi, MX)
        L.close(gi.toM(gi.prod(e, X)), MX, "%s: M(e*X) vs M(X)" % nm, atol=tol, X=X.tolist())
        L.close(gi.toM(gi.prod(X, e)), MX, "%s: M(X*e) vs M(X)" % nm, atol=tol, X=X.tolist())

    cells.append(Cell("%s/ident" % nm, elem, check_ident, nontrivial, classify, quick=100, thorough=2000,
                      build=lambda: (gi.fn("toM").build(), gi.fn("prod").build(), gi.fn("ident").build())))

    # ---- associativity
    def check_assoc(case):
        X, Y, Z = enc(case[0]), enc(case[1]), enc(case[2])
        assume(_valid_inputs(gi, [X, Y, Z]) and _mrp_pairs_ok(gi, X, Y) and _mrp_pairs_ok(gi, Y, Z))
        XY = gi.prod(X, Y)
        YZ = gi.prod(Y, Z)
        assume(_mrp_pairs_ok(gi, XY, Z) and _mrp_pairs_ok(gi, X, YZ))
        assume(_valid_inputs(gi, [XY, YZ]))
        want = gi.toM(X) @ gi.toM(Y) @ gi.toM(Z)
        tol = L.mat_tol(gi, want)
        if L.band_result(gi, gi.toM(X) @ gi.toM(Y)) or L.band_result(gi, gi.toM(Y) @ gi.toM(Z)):
            tol = 2 * L.BAND_TOL
        L.close(gi.toM(gi.prod(XY, Z)), want, "%s: M((XY)Z) vs M(X)M(Y)M(Z)" % nm, atol=tol,
                X=X.tolist(), Y=Y.tolist(), Z=Z.tolist())
        L.close(gi.toM(gi.prod(X, YZ)), want, "%s: M(X(YZ)) vs M(X)M(Y)M(Z)" % nm, atol=tol,
                X=X.tolist(), Y=Y.tolist(), Z=Z.tolist())

    cells.append(Cell("%s/assoc" % nm, st.lists(elem, min_size=3, max_size=3), check_assoc, nontrivial, classify,
                      quick=100, thorough=3000, build=lambda: (gi.fn("toM").build(), gi.fn("prod").build())))

    # ---- from_Matrix is a right inverse of to_Matrix
    def check_frommat(case):
        X = enc(case)
        assume(_valid_inputs(gi, [X]))
        MX = gi.toM(X)
        X2 = cy.vec(gi.fn("fromM")(MX))
        if not np.all(np.isfinite(X2)):
            raise Violation("%s: from_Matrix(M(X)) is not finite: %s" % (nm, X2), X=X.tolist())
        L.close(gi.toM(X2), MX, "%s: M(from_Matrix(M(X))) vs M(X)" % nm, atol=L.mat_tol(gi, MX),
                X=X.tolist(), X2=X2.tolist())

    cells.append(Cell("%s/frommat" % nm, elem, check_frommat, nontrivial, classify, quick=150, thorough=4000,
                      build=lambda: (gi.fn("toM").build(), gi.fn("fromM").build())))

    # ---- direct products: block structure
    if gi.factors:
        def check_blocks(case):
            X, Y = enc(case[0]), enc(case[1])
            assume(_valid_inputs(gi, [X, Y]) and _mrp_pairs_ok(gi, X, Y))
            M = gi.toM(X)
            P = gi.prod(X, Y)
            Xi = gi.inv(X)
            r0 = 0
            i0 = 0
            want = np.zeros_like(M)
            for f in gi.factors:
                xs, ys = X[i0:i0 + f.n], Y[i0:i0 + f.n]
                r1 = r0 + f.mshape[0]
                want[r0:r1, r0:r1] = f.toM(xs)
                tolp = L.mat_tol(f, f.toM(xs) @ f.toM(ys))
                L.close(f.toM(P[i0:i0 + f.n]), f.toM(xs) @ f.toM(ys),
                        "%s: factor %s of product acts per factor" % (nm, f.name), atol=tolp, X=X.tolist(), Y=Y.tolist())
                L.close(f.toM(Xi[i0:i0 + f.n]), np.linalg.inv(f.toM(xs)),
                        "%s: factor %s of inverse acts per factor" % (nm, f.name),
                        atol=L.mat_tol(f, np.linalg.inv(f.toM(xs))), X=X.tolist())
                r0 = r1
                i0 += f.n
            L.close(M, want, "%s: M(X) is block-diagonal of the factors' matrices" % nm, X=X.tolist())
            if P.shape[0] != gi.n:
                raise Violation("%s: product has %d parameters, expected %d" % (nm, P.shape[0], gi.n))

        cells.append(Cell("%s/blocks" % nm, st.lists(elem, min_size=2, max_size=2), check_blocks, nontrivial, classify,
                          quick=100, thorough=2000))
    # ---- element objects reused across several operations (in-place mutation / aliasing shows here)
    def mk_reuse():
        x, y, z = gi._X("X"), gi._X("Y"), gi._X("Z")
        X, Y, Z = gi.G.elem(x), gi.G.elem(y), gi.G.elem(z)
        outs = [(X * Y).param, (Y * X).param, ((X * Y) * Z).param, (X * (Y * Z)).param, (X.inverse() * X).param,
                X.to_Matrix(), (X * Y).param, X.param, Y.param, Z.param]
        return [x, y, z], [cy.ca.densify(o) for o in outs]

    reuse = cy.Fn("%s_reuse" % nm.replace("*", "x").replace("(", "_").replace(")", ""), mk_reuse)

    def check_reuse(case):
        X, Y, Z = enc(case[0]), enc(case[1]), enc(case[2])
        assume(_valid_inputs(gi, [X, Y, Z]) and _mrp_pairs_ok(gi, X, Y) and _mrp_pairs_ok(gi, Y, Z) and _mrp_pairs_ok(gi, Y, X))
        XY, YX, XY_Z, X_YZ, XiX, MXo, XY2, Xp, Yp, Zp = reuse(X, Y, Z)
        XYv, YZv = gi.prod(X, Y), gi.prod(Y, Z)
        assume(_mrp_pairs_ok(gi, XYv, Z) and _mrp_pairs_ok(gi, X, YZv) and _valid_inputs(gi, [XYv, YZv]))
        for nm_, a, b in (("X", Xp, X), ("Y", Yp, Y), ("Z", Zp, Z)):
            if not np.array_equal(cy.vec(a), b):
                raise Violation("%s: element %s changed after being used as an operand (in-place mutation)" % (nm, nm_),
                                before=b.tolist(), after=cy.vec(a).tolist())
        MX, MY, MZ = gi.toM(X), gi.toM(Y), gi.toM(Z)
        band = any(L.band_result(gi, m) for m in (MX @ MY, MY @ MX, MY @ MZ, MX @ MY @ MZ, np.linalg.inv(MX)))
        tol = 3 * L.BAND_TOL if band else 1e-9
        L.close(MXo, MX, "%s: M(X) on a reused object" % nm, atol=1e-12)
        L.close(gi.toM(cy.vec(XY)), MX @ MY, "%s: M(X*Y) on reused objects vs M(X)M(Y)" % nm, atol=tol)
        L.close(gi.toM(cy.vec(XY2)), MX @ MY, "%s: M(X*Y) evaluated a second time on the same objects" % nm, atol=tol)
        L.close(gi.toM(cy.vec(YX)), MY @ MX, "%s: M(Y*X) on reused objects vs M(Y)M(X)" % nm, atol=tol)
        L.close(gi.toM(cy.vec(XY_Z)), MX @ MY @ MZ, "%s: M((XY)Z) on reused objects" % nm, atol=tol)
        L.close(gi.toM(cy.vec(X_YZ)), MX @ MY @ MZ, "%s: M(X(YZ)) on reused objects" % nm, atol=tol)
        L.close(gi.toM(cy.vec(XiX)), np.eye(MX.shape[0]), "%s: M(X^-1 * X) on reused objects vs I" % nm,
                atol=tol, scale=float(np.max(np.abs(MX))) * float(np.max(np.abs(np.linalg.inv(MX)))))

    cells.append(Cell("%s/object_reuse" % nm, st.lists(elem, min_size=3, max_size=3), check_reuse, nontrivial, classify,
                      quick=80, thorough=1500, build=lambda: reuse.build()))

    # ---- the same API called on numeric (DM) parameters, in sequences with nearly identical inputs
    @st.composite
    def num_seq(draw):
        return {"X": draw(elem), "Y": draw(elem), "pert": [draw(st.sampled_from([0.0, 1e-9, 1e-7, -1e-6, 1e-5])) for _ in range(draw(st.integers(1, 3)))],
                "d": draw(gens.vector(gi.n, scales=(0,), allow_zero=False))}

    def check_numeric(case):
        X0, Y = enc(case["X"]), enc(case["Y"])
        assume(_valid_inputs(gi, [X0, Y]))
        for eps in [0.0] + list(case["pert"]):
            X = X0 * (1 + eps * np.array(case["d"]))
            if not _mrp_pairs_ok(gi, X, Y):
                continue
            for key, args in (("toM", (X,)), ("inv", (X,)), ("prod", (X, Y))):
                want = gi.fn(key)(*args)
                got = gi.numeric(key, *args)
                L.close(np.asarray(got).reshape(np.asarray(want).shape), want,
                        "%s: %s called on numeric parameters (after earlier numeric calls) vs the symbolic function" % (nm, key),
                        atol=1e-12, rtol=1e-12, scale=float(np.max(np.abs(want))), eps=eps)

    cells.append(Cell("%s/numeric_mode" % nm, num_seq(), check_numeric, lambda c: L.nontrivial_elem(c["X"]), quick=30, thorough=500))
    # ---- action on vectors (X @ v): the group acts through its matrix form
    if nm in ("SO2", "SO3Quat", "SO3Mrp", "SO3Dcm", "SO3EulerB321"):
        d = gi.mshape[0]

        def mk_act():
            ca = cy.ca
            X, Y, v = gi._X("X"), gi._X("Y"), ca.SX.sym("v", d)
            with cy.quiet():
                from cyecca.lie import group_rn
            ralg = group_rn.r2 if d == 2 else group_rn.r3
            ex, ey = gi.G.elem(X), gi.G.elem(Y)
            a1 = ex @ v
            a2 = (ex @ ralg.elem(v)).param
            a3 = ex @ (ey @ v)
            a4 = (ex * ey) @ v
            return [X, Y, v], [ca.densify(a1), ca.densify(a2), ca.densify(a3), ca.densify(a4)]

        act = cy.Fn("%s_action" % nm, mk_act)

        def check_act(case):
            X, Y, v = enc(case["X"]), enc(case["Y"]), np.array(case["v"], float)
            assume(_valid_inputs(gi, [X, Y]) and _mrp_pairs_ok(gi, X, Y))
            a1, a2, a3, a4 = [cy.vec(o) for o in act(X, Y, v)]
            MX, MY = gi.toM(X), gi.toM(Y)
            sc = 1 + float(np.max(np.abs(v)))
            if a1.shape != (d,):
                raise Violation("%s: X @ v has %d entries for a %d-vector" % (nm, a1.shape[0], d))
            L.close(a1, MX @ v, "%s: X @ v vs M(X) v" % nm, atol=1e-12 * sc, rtol=0, X=X.tolist(), v=v.tolist())
            L.close(a2, MX @ v, "%s: X @ (R^n algebra element) vs M(X) v" % nm, atol=1e-12 * sc, rtol=0, X=X.tolist(), v=v.tolist())
            L.close(a3, MX @ (MY @ v), "%s: X @ (Y @ v) vs M(X) M(Y) v" % nm, atol=1e-12 * sc, rtol=0, X=X.tolist(), Y=Y.tolist(), v=v.tolist())
            tol = L.mat_tol(gi, MX @ MY)
            L.close(a4, MX @ (MY @ v), "%s: (X * Y) @ v vs M(X) M(Y) v" % nm, atol=(tol if tol > 1e-9 else 1e-9) * sc, rtol=0,
                    X=X.tolist(), Y=Y.tolist(), v=v.tolist())
            if d == 3:
                # numeric (DM) vectors are accepted by the SO(3) elements as well
                with cy.quiet():
                    r = gi.G.elem(cy.ca.DM(X)) @ cy.ca.DM(v)
                L.close(cy.vec(cy.arr(cy.ca.evalf(cy.ca.densify(cy.ca.SX(r))))), MX @ v, "%s: X @ v on numeric operands vs M(X) v" % nm,
                        atol=1e-12 * sc, rtol=0, X=X.tolist(), v=v.tolist())

        cells.append(Cell("%s/action" % nm, st.fixed_dictionaries({"X": elem, "Y": elem, "v": gens.vector(d, scales=(-1, 0, 1, 2))}), check_act,
                          lambda c: nontrivial([c["X"], c["Y"]]) and any(c["v"]), lambda c: classify([c["X"], c["Y"]]),
                          quick=120, thorough=3000, build=lambda: act.build()))
    return cells


def euler_variant_cell():
    def check(case):
        i = case["variant"]
        require(0 <= i < len(L.euler_variants()))
        name, ty, seq, G = L.euler_variants()[i]
        ang, v = np.array(case["ang"], float), np.array(case["y"], float)
        M = L.euler_variant_fn(i, "toM")(ang)
        want = L.euler_variant_matrix(ty, seq, ang)
        L.close(M, want, "%s: matrix form vs the product of the elementary rotations of its sequence" % name, atol=1e-12, rtol=0, **case)
        L.close(L.euler_variant_fn(i, "ident")(), np.eye(3), "%s: matrix form of the identity element" % name, atol=0, rtol=0)
        got = cy.vec(L.euler_variant_fn(i, "act")(ang, v))
        L.close(got, want @ v, "%s: X @ v vs M(X) v" % name, atol=1e-12 * (1 + float(np.max(np.abs(v)))), rtol=0, **case)

    return Cell("SO3EulerVariants/matrix", L.euler_variant_case(), check, lambda c: sum(abs(a) > 1e-2 for a in c["ang"]) >= 2,
                lambda c: [L.euler_variants()[c["variant"]][1]], quick=460, thorough=6000)


def so2_frommat_tight_cell():
    """to_Matrix(from_Matrix(M)) = M for SO(2) and SE(2) at 1e-13 on planar rotations close to 0 and to +-pi, where an
    arccos/arcsin based angle recovery loses 1e-16/|theta| (seed C01-r6B); the unchanged tree (atan2) is exact to ~1e-16."""
    import casadi as ca
    from hypothesis import strategies as st
    fns = {}

    def fn(which):
        if which not in fns:
            from cyecca.lie.group_so2 import SO2
            from cyecca.lie.group_se2 import SE2
            G, n = (SO2, 2) if which == "SO2" else (SE2, 3)
            M = ca.SX.sym("M", n, n)
            with cy.quiet():
                fns[which] = ca.Function("fm_" + which, [M], [G.from_Matrix(M).to_Matrix()])
        return fns[which]

    @st.composite
    def case(draw):
        return {"G": draw(st.sampled_from(["SO2", "SE2"])), "base": draw(st.sampled_from([0, 1, -1, 0, 1, -1, 2])),
                "off": draw(st.sampled_from([-1.0, 1.0])) * 10.0 ** draw(gens.fl(-9.0, -2.0)), "generic": draw(gens.fl(-PI, PI)),
                "t": [draw(gens.fl(-10.0, 10.0)), draw(gens.fl(-10.0, 10.0))]}

    def check(c):
        require(c["G"] in ("SO2", "SE2") and c["base"] in (0, 1, -1, 2) and abs(c["off"]) <= 1e-2 and abs(c["generic"]) <= PI)
        th = c["generic"] if c["base"] == 2 else c["base"] * PI + c["off"]
        cs, sn = math.cos(th), math.sin(th)
        if c["G"] == "SO2":
            M = np.array([[cs, -sn], [sn, cs]])
        else:
            M = np.array([[cs, -sn, c["t"][0]], [sn, cs, c["t"][1]], [0, 0, 1.0]])
        M2 = cy.arr(fn(c["G"])(M))
        L.close(M2, M, "%s: to_Matrix(from_Matrix(M)) vs M at planar angle %.17g" % (c["G"], th), atol=1e-13, rtol=0, scale=1.0, **c)

    return Cell("SO2SE2/frommat_tight", case(), check, lambda c: c["base"] != 2 and abs(c["off"]) > 0,
                lambda c: ["G:" + c["G"], "near:" + {0: "0", 1: "pi", -1: "-pi", 2: "generic"}[c["base"]]], quick=600, thorough=12000)


def build(tier):
    cells = []
    for gi in L.all_groups(tier):
        cells += make_cells(gi, tier)
    cells.append(euler_variant_cell())
    cells.append(so2_frommat_tight_cell())
    return {
        "cells": cells,
        "rule": RULE,
        "assumptions": [
            "group matrices are compared with numpy matrix algebra; tolerance 1e-9*(1+scale), 2.5e-3 rad when an "
            "Euler-parameterised result falls inside the +-1e-3 rad gimbal band",
            "MRP pairs whose composite quaternion has 1+q0 < 1e-2 (360-degree product singularity) are discarded",
            "an operation that raises NotImplementedError when built is out of scope (counted under excluded)",
        ],
        "matchers": MATCHERS,
    }


MATCHERS = {}
