"""C14 — attitude set-points are proper rotations aligned with the demanded thrust and heading."""
from __future__ import annotations

import math

import numpy as np
from hypothesis import strategies as st

from vlib import cy, gens, ref
from vlib.harness import Cell, Violation, require
from props import common_lie as L
from props import c15_controllers as K

ca = cy.ca
PI = math.pi
RULE = (
    "Cases: position/velocity errors N*10^k, feed-forward accelerations/jerks/snaps, headings in (-pi, pi] given as camera "
    "quaternions of either sign, integrator values and trim thrusts incl. 0, SE_2(3) error vectors; and constructed "
    "degenerate cases: demanded force exactly/nearly zero (both sides of each norm threshold), demanded force "
    "parallel/antiparallel to the heading vector (exactly and within 10^-u rad, u in 2..9) for generic psi and for psi in "
    "{0, +-pi/2, pi}. Oracle: the demanded force recomputed by the harness from the inputs and the module's gains; "
    "orthonormality/determinant; closed-form rotation rate of the thrust axis; Euler's equation; differential comparison "
    "of the two flatness variants. Non-trivial: tilt of the set-point > 0.05 rad (and non-zero jerk for the rate cells); "
    "degenerate cases counted per branch; distinct = hash of (cell, case)."
)
_f = {}


def fn(key):
    if key not in _f:
        import os
        os.environ.setdefault("MPLBACKEND", "Agg")
        with cy.quiet():
            import cyecca.models.bezier as bz
            import cyecca.models.mr_ref_traj as mr

            table = {"f_ref": lambda: bz.derive_ref()["f_ref"], "mr": lambda: mr.derive_mr_ref_traj()["mr_ref_traj"],
                     "e2q": lambda: bz.derive_eulerB321_to_quat()["eulerB321_to_quat"]}
            _f[key] = table[key]()
            _f["bz"] = bz
    return _f[key]


def call(key, *args):
    f = fn(key) if key in ("f_ref", "mr", "e2q") else K.fn(key)
    r = f.call([ca.DM(np.asarray(a, float)) for a in args])
    return [np.array(x, float) for x in r]


def check_quat(q, what, **d):
    q = np.asarray(q, float).reshape(-1)
    if not np.all(np.isfinite(q)):
        raise Violation("%s: non-finite quaternion %s" % (what, q.tolist()), **d)
    n = float(np.linalg.norm(q))
    if abs(n - 1) > 1e-9:
        raise Violation("%s: quaternion norm %.12f != 1 (set-point is not a proper rotation; det of its matrix = %.6f)" % (
            what, n, np.linalg.det(ref.quat_to_R(q))), **d)
    return ref.quat_to_R(q)


def check_rot(R, what, **d):
    R = np.asarray(R, float)
    if not np.all(np.isfinite(R)):
        raise Violation("%s: non-finite rotation matrix" % what, **d)
    e = float(np.max(np.abs(R.T @ R - np.eye(3))))
    dt = float(np.linalg.det(R))
    if e > 1e-9 or abs(dt - 1) > 1e-9:
        raise Violation("%s: matrix is not a proper rotation (|R^T R - I| = %.3e, det = %.9f)" % (what, e, dt), **d)


v3 = K.v3


@st.composite
def heading(draw):
    m = draw(st.integers(0, 5))
    psi = draw(st.sampled_from([0.0, PI / 2, -PI / 2, PI, PI / 4, -3 * PI / 4])) if m == 0 else draw(gens.fl(-PI, PI))
    tilt = draw(st.integers(0, 2)) == 0  # the camera may also be pitched / rolled; its 3-2-1 yaw is the heading
    return {"psi": psi, "sign": int(draw(st.sampled_from([1, -1]))),
            "pitch": draw(gens.fl(-1.3, 1.3)) if tilt else 0.0, "roll": draw(gens.fl(-2.5, 2.5)) if tilt else 0.0}


def qc_of(h):
    q = ref.quat_from_axis_angle([0, 0, 1.0], h["psi"], 1.0)
    if h.get("pitch") or h.get("roll"):
        q = ref.quat_mul(q, ref.quat_mul(ref.quat_from_axis_angle([0, 1.0, 0], h.get("pitch", 0.0), 1.0),
                                         ref.quat_from_axis_angle([1.0, 0, 0], h.get("roll", 0.0), 1.0)))
    return float(h["sign"]) * q


@st.composite
def force_dir(draw, psi):
    """A demanded-force vector: generic, or constructed parallel/antiparallel to the heading vector (to within eps),
    or (near) zero."""
    kind = draw(st.sampled_from(["generic", "generic", "generic", "parallel", "zero", "vertical"]))
    xC = np.array([math.cos(psi), math.sin(psi), 0.0])
    if kind == "generic":
        return kind, [draw(gens.fl(-1.0, 1.0)) * 6, draw(gens.fl(-1.0, 1.0)) * 6, draw(gens.fl(-6.0, 30.0))]
    if kind == "vertical":
        return kind, [0.0, 0.0, draw(st.sampled_from([-1.0, 1.0])) * draw(gens.fl(0.5, 30.0))]
    if kind == "zero":
        mag = draw(st.sampled_from([0.0, 1e-12, 5e-7, 9.9e-7, 1.1e-6, 1e-4, 9e-4, 1.1e-3, 1e-2]))
        d = np.array(draw(gens.axis()))
        return kind, list(mag * d)
    sg = draw(st.sampled_from([1.0, -1.0]))
    eps = draw(st.sampled_from([0.0, 1e-9, 1e-7, 5e-7, 2e-6, 1e-5, 5e-4, 9e-4, 1.1e-3, 1e-2]))
    perp = np.array([-math.sin(psi), math.cos(psi), 0.0]) * math.cos(draw(gens.fl(0, 2 * PI))) + np.array([0, 0, 1.0]) * math.sin(draw(gens.fl(0, 2 * PI)))
    d = sg * xC * math.cos(eps) + perp / max(np.linalg.norm(perp), 1e-12) * math.sin(eps)
    return "parallel", list(draw(gens.fl(0.5, 6.0)) * d)


def branch_class(F, psi, tz=1e-3, ty=1e-3):
    F = np.asarray(F, float)
    n = float(np.linalg.norm(F))
    if n <= tz:
        return "thrust<=threshold"
    z = F / n
    xC = np.array([math.cos(psi), math.sin(psi), 0.0])
    if float(np.linalg.norm(np.cross(z, xC))) <= ty:
        return "thrust||heading"
    return "regular"


# ---- position controller -------------------------------------------------------------------
@st.composite
def pos_case(draw):
    h = draw(heading())
    kind, F = draw(force_dir(h["psi"]))
    return {"h": h, "kind": kind, "F": F, "vt": draw(v3(-2.0, 2.0)), "v": draw(v3(-2.0, 2.0)), "p": draw(v3(-5.0, 5.0)),
            "trim_mode": draw(st.sampled_from(["zero", "mg", "rand"])), "trim": draw(gens.fl(0.0, 40.0)),
            "z_i": draw(st.sampled_from([0.0, 0.0, 1.0, -3.0])), "dt": 0.01}


def pos_inputs(case):
    """Choose (pt, at, trim) so that the demanded force T equals case['F'] when it is reachable (|F - trim e3| <= 0.3 m g),
    otherwise the saturated demand."""
    m = K.mod("rdd2")
    F = np.array(case["F"], float)
    trim = {"zero": 0.0, "mg": m.m * m.g, "rand": case["trim"]}[case["trim_mode"]]
    z_i = case["z_i"]
    want_p = F - np.array([0, 0, trim + m.ki_z * z_i])
    lim = 0.3 * m.m * m.g
    if float(np.linalg.norm(want_p)) > lim:
        # move the trim so that the remaining feedback is inside the saturation (keeps the constructed direction exact)
        trim = float(F[2] - m.ki_z * z_i)
        want_p = np.array([F[0], F[1], 0.0])
        if trim < 0 or float(np.linalg.norm(want_p)) > lim:
            return None
    # realise want_p with the feed-forward acceleration only (zero tracking error): p_term = m at
    e_v = np.zeros(3)
    at = want_p / m.m
    return {"trim": trim, "pt": list(case["p"]), "vt": list(case["v"]), "at": list(at), "p": list(case["p"]), "v": list(case["v"]),
            "T": want_p + np.array([0, 0, trim + m.ki_z * z_i])}


def check_pos(case):
    inp = pos_inputs(case)
    require(inp is not None)
    qc = qc_of(case["h"])
    nT, qr, z2 = call("pos", inp["trim"], inp["pt"], inp["vt"], inp["at"], qc, inp["p"], inp["v"], case["z_i"], case["dt"])
    _check_thrust_vector("position_control", float(nT.reshape(-1)[0]), qr.reshape(-1), inp["T"], case["h"]["psi"], case)


def _check_thrust_vector(name, nT, qr, T, psi, case, tz=1e-3, ty=1e-3):
    if not math.isfinite(nT):
        raise Violation("%s: non-finite thrust" % name, **case)
    R = check_quat(qr, "%s (branch %s)" % (name, branch_class(T, psi, tz, ty)), demanded=np.asarray(T).tolist(), **case)
    n = float(np.linalg.norm(T))
    if abs(nT - n) > 1e-9 * (1 + n):
        raise Violation("%s: returned thrust %.12g, norm of the demanded force %.12g" % (name, nT, n), **case)
    br = branch_class(T, psi, tz * 1.01, ty * 1.01)
    if br == "regular" and branch_class(T, psi, tz * 0.99, ty * 0.99) == "regular":
        L.close(R[:, 2], np.asarray(T) / n, "%s: body z axis vs normalised demanded force" % name, atol=1e-9, rtol=0, **case)
        xC = np.array([math.cos(psi), math.sin(psi), 0.0])
        d = float(R[:, 1] @ xC)
        if abs(d) > 1e-9:
            raise Violation("%s: body y axis is not perpendicular to the heading direction (dot = %.3e)" % (name, d), **case)
        # x axis on the heading side
        if float(R[:, 0] @ xC) < -1e-9:
            raise Violation("%s: body x axis points away from the commanded heading" % name, **case)


def pos_classify(case):
    inp = pos_inputs(case)
    if inp is None:
        return ["unreachable"]
    return ["branch:" + branch_class(inp["T"], case["h"]["psi"]), "kind:" + case["kind"], "qsign:%d" % case["h"]["sign"]]


def pos_nt(case):
    inp = pos_inputs(case)
    if inp is None:
        return False
    T = inp["T"]
    n = float(np.linalg.norm(T))
    return n > 1e-3 and math.acos(max(-1, min(1, T[2] / n))) > 0.05


# ---- generic (random) position controller case: saturated PD etc. ----------------------------
@st.composite
def pos_rand(draw):
    sc = draw(st.sampled_from([0.01, 0.3, 3.0, 30.0]))
    return {"h": draw(heading()), "pt": [x * sc for x in draw(v3(-1.0, 1.0))], "vt": draw(v3(-2.0, 2.0)),
            "at": [x * draw(st.sampled_from([0.0, 1.0, 5.0])) for x in draw(v3(-1.0, 1.0))], "p": [x * sc for x in draw(v3(-1.0, 1.0))],
            "v": draw(v3(-3.0, 3.0)), "trim": draw(st.sampled_from([0.0, 21.952, 10.0])) if draw(st.booleans()) else draw(gens.fl(0.0, 40.0)),
            "z_i": draw(st.sampled_from([0.0, 2.0, -2.0])), "dt": 0.01}


def check_pos_rand(case):
    m = K.mod("rdd2")
    qc = qc_of(case["h"])
    nT, qr, z2 = call("pos", case["trim"], case["pt"], case["vt"], case["at"], qc, case["p"], case["v"], case["z_i"], case["dt"])
    e_p = np.array(case["p"]) - np.array(case["pt"])
    e_v = np.array(case["v"]) - np.array(case["vt"])
    pterm = -m.kp_pos * e_p - m.kp_vel * e_v + m.m * np.array(case["at"])
    lim = 0.3 * m.m * m.g
    if np.linalg.norm(pterm) > lim:
        pterm = pterm * lim / np.linalg.norm(pterm)
    T = pterm + np.array([0, 0, case["trim"] + m.ki_z * case["z_i"]])
    _check_thrust_vector("position_control", float(nT.reshape(-1)[0]), qr.reshape(-1), T, case["h"]["psi"], case)


# ---- SE_2(3) outer loop ---------------------------------------------------------------------
@st.composite
def se23_case(draw):
    h = draw(heading())
    return {"h": h, "zeta": draw(v3(-2.0, 2.0)) + draw(v3(-2.0, 2.0)) + [x * draw(st.sampled_from([0.0, 0.3, 1.0, 2.5])) for x in draw(v3(-1.0, 1.0))],
            "kp": draw(v3(0.5, 5.0)), "at": [x * draw(st.sampled_from([0.0, 1.0, 5.0])) for x in draw(v3(-1.0, 1.0))],
            "trim": draw(st.sampled_from([0.0, 21.952])) if draw(st.booleans()) else draw(gens.fl(0.0, 40.0)),
            "z_i": draw(st.sampled_from([0.0, 2.0, -2.0])), "dt": 0.01, "degenerate": draw(st.integers(0, 4)) == 0,
            "eps": draw(st.sampled_from([0.0, 1e-7, 5e-4, 2e-3])),
            # direction of the eps offset away from the heading vector: up (0), sideways (pi/2) or in between
            "eps_phi": draw(st.sampled_from([0.0, PI / 2, -PI / 2, PI / 4, -PI / 3, 2.5]))}


def check_se23(case):
    ml = K.mod("ll")
    gi = cy.registry()["SE23Quat"]
    zeta = np.array(case["zeta"], float)
    E = L.basis_matrices(gi)
    ad = np.zeros((9, 9))
    Z = L.hat(gi, zeta)
    for j in range(9):
        ad[:, j], _ = L.vee(gi, Z @ E[j] - E[j] @ Z)
    Kg = np.diag([ml.kp_pos] * 3 + [ml.kp_vel] * 3 + list(case["kp"]))
    u = K.Jl_series(ad) @ Kg @ zeta
    at = np.array(case["at"], float)
    trim = case["trim"]
    psi = case["h"]["psi"]
    if case["degenerate"]:
        # steer the demanded force onto the heading vector with the feed-forward acceleration and zero trim
        trim = 0.0
        xC = np.array([math.cos(psi), math.sin(psi), 0.0])
        yC = np.array([-math.sin(psi), math.cos(psi), 0.0])
        phi = case.get("eps_phi", 0.0)
        perp = np.array([0, 0, 1.0]) * math.cos(phi) + yC * math.sin(phi)
        want = 3.0 * (xC * math.cos(case["eps"]) + perp * math.sin(case["eps"]))
        at = (want - (u[0:3] + u[3:6]) - np.array([0, 0, ml.ki_z * case["z_i"]])) / ml.m
    pterm = u[0:3] + u[3:6] + ml.m * at
    lim = 0.3 * ml.m * ml.g
    if np.linalg.norm(pterm) > lim:
        require(not case["degenerate"])
        pterm = pterm * lim / np.linalg.norm(pterm)
    T = pterm + np.array([0, 0, trim + ml.ki_z * case["z_i"]])
    nT, qr, z2 = call("se23pos", trim, case["kp"], zeta, at, qc_of(case["h"]), case["z_i"], case["dt"])
    _check_thrust_vector("se23_position_control", float(nT.reshape(-1)[0]), qr.reshape(-1), T, psi, case)


def se23_classify(case):
    return ["degenerate" if case["degenerate"] else "regular"]


# ---- flatness maps --------------------------------------------------------------------------
@st.composite
def flat_case(draw):
    psi = draw(heading())["psi"]
    kind = draw(st.sampled_from(["generic", "generic", "generic", "inverted", "freefall", "parallel"]))
    m_, g_ = 2.0, 9.8
    if kind == "generic":
        a = [draw(gens.fl(-6.0, 6.0)), draw(gens.fl(-6.0, 6.0)), draw(gens.fl(-8.0, 5.0))]
    elif kind == "inverted":
        # downward acceleration beyond gravity: the thrust points below the horizon
        a = [draw(gens.fl(-6.0, 6.0)), draw(gens.fl(-6.0, 6.0)), draw(gens.fl(11.0, 25.0))]
    elif kind == "freefall":
        d = np.array(draw(gens.axis())) * draw(st.sampled_from([0.0, 1e-9, 4e-7, 6e-7, 1e-5, 1e-3])) / m_
        a = list(np.array([0, 0, g_]) - d)
    else:
        sg = draw(st.sampled_from([1.0, -1.0]))
        eps = draw(st.sampled_from([0.0, 1e-9, 5e-7, 2e-6, 1e-4, 1e-2]))
        xC = np.array([math.cos(psi), math.sin(psi), 0.0])
        d = sg * xC * math.cos(eps) + np.array([0, 0, 1.0]) * math.sin(eps)
        F = draw(gens.fl(1.0, 30.0)) * d
        a = list(np.array([0, 0, g_]) - F / m_)
    return {"psi": psi, "psi_dot": draw(gens.fl(-2.0, 2.0)), "psi_ddot": draw(gens.fl(-2.0, 2.0)), "kind": kind, "a": a,
            "v": draw(v3(-5.0, 5.0)), "j": draw(v3(-5.0, 5.0)), "s": draw(v3(-10.0, 10.0)),
            "m": draw(gens.fl(0.5, 5.0)), "g": draw(gens.fl(5.0, 12.0)),
            "J": [draw(gens.fl(0.005, 0.1)), draw(gens.fl(0.005, 0.1)), draw(gens.fl(0.01, 0.2)), draw(gens.fl(-0.003, 0.003))]}


def flat_regular(F, psi, tol=1e-6):
    F = np.asarray(F, float)
    n = float(np.linalg.norm(F))
    if n <= tol * 1.01:
        return False, n
    z = F / n
    xC = np.array([math.cos(psi), math.sin(psi), 0.0])
    return float(np.linalg.norm(np.cross(z, xC))) > tol * 1.01, n


def check_flat(case):
    bz = (fn("f_ref"), _f["bz"])[1]
    a = np.array(case["a"], float)
    j, s_, v = np.array(case["j"]), np.array(case["s"]), np.array(case["v"])
    psi = case["psi"]
    # ---- fixed-constant variant (quaternion output)
    vb, quat, om, omd, Mb, T = [x.reshape(-1) for x in call("f_ref", psi, case["psi_dot"], case["psi_ddot"], v, a, j, s_)]
    F = bz.m * (bz.g * np.array([0, 0, 1.0]) - a)
    reg, n = flat_regular(F, psi)
    R = check_quat(quat, "f_ref (%s)" % ("regular" if reg else "degenerate: thrust %.3g N, heading-aligned or zero" % n), **case)
    tilt_ok = reg and n > 0.5 and abs(abs(math.acos(max(-1, min(1, F[2] / n)))) - PI / 2) > 0.17
    Jb = np.array([[bz.J_xx, 0, bz.J_xz], [0, bz.J_yy, 0], [bz.J_xz, 0, bz.J_zz]])
    _flat_common("f_ref", R, om, omd, Mb, float(T[0]), vb, F, bz.m, Jb, psi, v, j, reg, tilt_ok, case)
    # ---- parametric variant with the same constants must agree
    vb2, C2, om2, omd2, Mb2, T2 = call("mr", psi, case["psi_dot"], case["psi_ddot"], v, a, j, s_, bz.m, bz.g, bz.J_xx, bz.J_yy, bz.J_zz, bz.J_xz)
    check_rot(C2, "mr_ref_traj (%s)" % ("regular" if reg else "degenerate"), **case)
    if tilt_ok:
        L.close(C2, R, "f_ref vs mr_ref_traj (module constants): attitude", atol=1e-9, rtol=0, **case)
        for nm_, x1, x2 in (("v_b", vb, vb2), ("omega", om, om2), ("omega_dot", omd, omd2), ("M", Mb, Mb2), ("T", T, T2)):
            L.close(np.asarray(x2).reshape(-1), x1, "f_ref vs mr_ref_traj (module constants): %s" % nm_, atol=1e-8, rtol=1e-8,
                    scale=1 + float(np.max(np.abs(x1))), **case)
    # ---- parametric variant with generated mass / inertia
    m_, g_ = case["m"], case["g"]
    Jx, Jy, Jz, Jxz = case["J"]
    a2 = a + np.array([0, 0, g_ - bz.g])  # keep the same demanded direction class
    vb3, C3, om3, omd3, Mb3, T3 = call("mr", psi, case["psi_dot"], case["psi_ddot"], v, a2, j, s_, m_, g_, Jx, Jy, Jz, Jxz)
    F3 = m_ * (g_ * np.array([0, 0, 1.0]) - a2)
    reg3, n3 = flat_regular(F3, psi)
    check_rot(C3, "mr_ref_traj (%s, generated mass/inertia)" % ("regular" if reg3 else "degenerate"), **case)
    tilt3 = reg3 and n3 > 0.5 and abs(abs(math.acos(max(-1, min(1, F3[2] / n3)))) - PI / 2) > 0.17
    J3 = np.array([[Jx, 0, Jxz], [0, Jy, 0], [Jxz, 0, Jz]])
    _flat_common("mr_ref_traj", C3, om3.reshape(-1), omd3.reshape(-1), Mb3.reshape(-1), float(np.asarray(T3).reshape(-1)[0]),
                 vb3.reshape(-1), F3, m_, J3, psi, v, j, reg3, tilt3, case)


def _flat_common(name, R, om, omd, Mb, T, vb, F, m_, J, psi, v, j, reg, tilt_ok, case):
    n = float(np.linalg.norm(F))
    if reg:
        if abs(T - n) > 1e-9 * (1 + n):
            raise Violation("%s: returned thrust %.12g, norm of the demanded force %.12g" % (name, T, n), **case)
        L.close(R[:, 2], F / n, "%s: body z axis vs normalised demanded force m (g e3 - a)" % name, atol=1e-9, rtol=0, **case)
        xC = np.array([math.cos(psi), math.sin(psi), 0.0])
        if abs(float(R[:, 1] @ xC)) > 1e-9:
            raise Violation("%s: body y axis is not perpendicular to the heading direction (dot = %.3e)" % (name, float(R[:, 1] @ xC)), **case)
        L.close(vb, R.T @ v, "%s: v_b vs R^T v" % name, atol=1e-9, rtol=1e-9, scale=1 + float(np.max(np.abs(v))), **case)
    if tilt_ok:
        if not (np.all(np.isfinite(om)) and np.all(np.isfinite(omd)) and np.all(np.isfinite(Mb))):
            raise Violation("%s: non-finite rates/moment in a regular configuration" % name, **case)
        z = F / n
        zdot = -(m_ / n) * (np.eye(3) - np.outer(z, z)) @ j  # d/dt of F/|F| with F' = -m j
        wx, wy = -float(R[:, 1] @ zdot), float(R[:, 0] @ zdot)
        sc = 1 + float(np.linalg.norm(zdot))
        L.close(om[0:2], np.array([wx, wy]), "%s: roll/pitch rates vs rotation rate of the thrust axis along the trajectory" % name,
                atol=1e-9 * sc, rtol=0, **case)
        Mw = J @ omd + np.cross(om, J @ om)
        L.close(Mb, Mw, "%s: moment vs J w' + w x J w for the returned rates" % name, atol=1e-9 * (1 + float(np.max(np.abs(Mw)))), rtol=0, **case)


def flat_classify(case):
    bz = (fn("f_ref"), _f["bz"])[1]
    F = bz.m * (bz.g * np.array([0, 0, 1.0]) - np.array(case["a"]))
    reg, n = flat_regular(F, case["psi"])
    return ["kind:" + case["kind"], "regular" if reg else "degenerate"]


def flat_nt(case):
    bz = (fn("f_ref"), _f["bz"])[1]
    F = bz.m * (bz.g * np.array([0, 0, 1.0]) - np.array(case["a"]))
    n = float(np.linalg.norm(F))
    return n > 0.5 and math.acos(max(-1, min(1, F[2] / n))) > 0.05 and float(np.linalg.norm(case["j"])) > 0


# ---- helpers -------------------------------------------------------------------------------
@st.composite
def euler_case(draw):
    m = draw(st.integers(0, 5))
    pitch = draw(st.sampled_from([PI / 2, -PI / 2, PI / 2 - 1e-4, -PI / 2 + 2e-3, 0.0])) if m == 0 else draw(gens.fl(-PI / 2, PI / 2))
    return {"yaw": draw(gens.fl(-PI, PI)), "pitch": pitch, "roll": draw(gens.fl(-PI, PI)), "sticks": draw(K.sticks4),
            "rot": draw(gens.rotation(strata=("zero", "mid", "mid", "nearpi", "pi", "beyond")))}


def check_helpers(case):
    (q,) = call("e2q", case["yaw"], case["pitch"], case["roll"])
    R = check_quat(q.reshape(-1), "eulerB321_to_quat", **case)
    L.close(R, ref.euler321_to_R([case["yaw"], case["pitch"], case["roll"]]), "eulerB321_to_quat vs Rz(yaw) Ry(pitch) Rx(roll)", atol=1e-9, rtol=0, **case)
    qm = ref.quat_from_axis_angle(gens.unit_axis(case["rot"]["axis"]), case["rot"]["angle"], float(case["rot"]["sign"]))
    q_r, thr = call("level", 20.0, 10.0, case["sticks"], qm)
    check_quat(q_r.reshape(-1), "input_auto_level", **case)


def build(tier):
    cells = [
        Cell("position_control/constructed", pos_case(), check_pos, pos_nt, pos_classify, quick=700, thorough=15000, build=lambda: K.fn("pos")),
        Cell("position_control/random", pos_rand(), check_pos_rand, lambda c: True, lambda c: ["qsign:%d" % c["h"]["sign"]], quick=400, thorough=8000),
        Cell("se23_position_control", se23_case(), check_se23, lambda c: True, se23_classify, quick=400, thorough=8000, build=lambda: K.fn("se23pos")),
        Cell("flatness", flat_case(), check_flat, flat_nt, flat_classify, quick=700, thorough=15000, build=lambda: (fn("f_ref"), fn("mr"))),
        Cell("helpers", euler_case(), check_helpers, lambda c: True, None, quick=300, thorough=6000, build=lambda: (fn("e2q"), K.fn("level"))),
    ]
    return {
        "cells": cells,
        "rule": RULE,
        "assumptions": [
            "demanded force of the controllers: saturated (0.3 m g) PD + m a_ff, plus (trim + ki_z z_i) e3, with the module's gains; "
            "SE_2(3) loop: J_l(zeta) K zeta with J_l from the series sum ad^k/(k+1)!; flatness maps: m (g e3 - a)",
            "alignment (z axis, y axis, thrust) is asserted only when the case is at least 1% away from the norm thresholds of the "
            "fallback branches; in the degenerate branches the set-point must still be a finite proper rotation (unit quaternion / "
            "orthonormal matrix with det +1 to 1e-9)",
            "rate and moment identities are asserted for regular configurations with thrust > 0.5 N and tilt < 1.4 rad (the yaw-rate "
            "formula divides by cos(roll))",
        ],
        "require_classes": {"position_control/constructed": ["branch:regular", "branch:thrust||heading", "branch:thrust<=threshold"],
                            "flatness": ["regular", "degenerate", "kind:freefall", "kind:parallel", "kind:inverted"],
                            "se23_position_control": ["degenerate", "regular"]},
        "matchers": MATCHERS,
    }


MATCHERS = {}
