#!/bin/sh
# MANIFEST.setup_cmd: offline, idempotent.  Makes sure hypothesis (and mpmath/scipy, already
# dependencies of the repository's venv) are importable by /venv/bin/python.
set -e
cd "$(dirname "$0")"
if ! /venv/bin/python -c "import hypothesis" 2>/dev/null; then
  PIP_NO_INDEX=1 /venv/bin/pip install --no-index --find-links /opt/veriftools/wheels hypothesis
fi
/venv/bin/python -c "import hypothesis, numpy, scipy, mpmath, casadi, sympy, simpy; print('deps ok: hypothesis', hypothesis.__version__)"
# optional: atheris (coverage-guided campaigns of the C19 thorough tier), into a private directory
if [ ! -d .deps/atheris ]; then
  PIP_NO_INDEX=1 /venv/bin/pip install -q --no-index --find-links /opt/veriftools/wheels --target .deps atheris >/dev/null 2>&1 || echo "atheris not installed (C19 thorough campaigns will be skipped)"
fi
mkdir -p evidence replays
