#!/venv/bin/python
"""Prints the markdown table of seeded changes (from seeded/*/meta.json) for DESIGN.md §4."""
import glob, json, os
HERE = os.path.dirname(os.path.dirname(os.path.abspath(__file__)))
rows = []
for d in sorted(glob.glob(os.path.join(HERE, "seeded", "C*-*"))):
    mp = os.path.join(d, "meta.json")
    if not os.path.exists(mp):
        continue
    m = json.load(open(mp))
    cells = []
    for pid, c in m.get("checks", {}).items():
        names = sorted({v.split(" :: ")[0].replace("cell=", "").strip() for v in c.get("violating_cells", [])})
        cells.append("%s: %s%s" % (pid, "caught" if c["caught"] else "MISSED", (" (" + ", ".join(names[:3]) + ")") if names else ""))
    rows.append("| %s | %s | %s | %s |" % (m["name"], m.get("needs_to_manifest", "")[:230].replace("|", "/"), "yes" if m.get("kept") else "no", "; ".join(cells)))
print("| seed | change / what it needs to manifest | confirmed | quick check result |")
print("|---|---|---|---|")
print("\n".join(rows))
