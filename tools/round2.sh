#!/bin/sh
# usage: [R=3] round2.sh PROP [props to run, comma list] — collect a round-R sub-agent's output and run the quick check against each change
P=$1; PROPS=${2:-$1}; R=${R:-2}
cd /verif
if [ -d /tmp/wt${R}_$P/_seeded ]; then rm -rf seeded/_incoming/${P}_r$R; mkdir -p seeded/_incoming/${P}_r$R; for f in A.patch B.patch C.patch demo_A.py demo_B.py demo_C.py needs.json notes.md; do [ -f /tmp/wt${R}_$P/_seeded/$f ] && cp /tmp/wt${R}_$P/_seeded/$f seeded/_incoming/${P}_r$R/; done; for f in /tmp/wt${R}_$P/_seeded/_*.py /tmp/wt${R}_$P/_seeded/demo_common.py; do [ -f "$f" ] && cp $f seeded/_incoming/${P}_r$R/; done; git -C /repo worktree remove --force /tmp/wt${R}_$P; fi
sed -i -E '/^\s*assert cyecca\.__file__\.startswith\("\/tmp\/wt/d' seeded/_incoming/${P}_r$R/demo_*.py 2>/dev/null
export MPLBACKEND=Agg
for x in A B C; do
  [ -f seeded/_incoming/${P}_r$R/$x.patch ] || continue
  /venv/bin/python tools/seedcheck.py seeded/_incoming/${P}_r$R $P --patch $x.patch --demo demo_$x.py --no-suite --props $PROPS 2>&1 | /venv/bin/python -c "
import sys,json
r=json.load(sys.stdin); print('$P-r$R$x', 'apply', r['apply'], 'demo clean/patched', r.get('demo_clean',{}).get('rc'), r.get('demo_patched',{}).get('rc'), {k:(v['rc'],[l[:240] for l in v['violations'] if 'cell=' in l][:2]) for k,v in r.get('checks',{}).items()})"
done
