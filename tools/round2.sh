#!/bin/sh
# usage: round2.sh PROP [extra props to run, comma list]  — collect a round-2 sub-agent's output and run the quick check against each change
P=$1; PROPS=${2:-$1}
cd /verif
if [ -d /tmp/wt2_$P/_seeded ]; then rm -rf seeded/_incoming/${P}_r2; cp -r /tmp/wt2_$P/_seeded seeded/_incoming/${P}_r2; git -C /repo worktree remove --force /tmp/wt2_$P; fi
sed -i -E '/^\s*assert cyecca\.__file__\.startswith\("\/tmp\/wt/d' seeded/_incoming/${P}_r2/demo_*.py 2>/dev/null
export MPLBACKEND=Agg
for x in A B C; do
  [ -f seeded/_incoming/${P}_r2/$x.patch ] || continue
  /venv/bin/python tools/seedcheck.py seeded/_incoming/${P}_r2 $P --patch $x.patch --demo demo_$x.py --no-suite --props $PROPS 2>&1 | /venv/bin/python -c "
import sys,json
r=json.load(sys.stdin); print('$P-r2$x', 'apply', r['apply'], 'demo clean/patched', r.get('demo_clean',{}).get('rc'), r.get('demo_patched',{}).get('rc'), {k:(v['rc'],[l[:240] for l in v['violations'] if 'cell=' in l][:2]) for k,v in r.get('checks',{}).items()})"
done
