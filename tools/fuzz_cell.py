#!/venv/bin/python
"""Coverage-guided fuzzing (atheris / libFuzzer) of one cell of a property module: the bytes are decoded by the cell's own
Hypothesis strategy (`test.hypothesis.fuzz_one_input`) and the cell's own check - the semantic oracle - runs inside the
target, so a finding is a property violation, not just a crash.  Coverage feedback comes from the instrumented cyecca modules.

usage: fuzz_cell.py <props module> <strategy function> <check function> --instrument mod1,mod2 --runs N --seed S --out DIR
Prints one line 'RESULT {...}'; on a violation writes DIR/violation.json and exits 1.
"""
import json
import os
import sys

HERE = os.path.dirname(os.path.dirname(os.path.abspath(__file__)))
sys.path.insert(0, HERE)
deps = os.path.join(HERE, ".deps")
if os.path.isdir(deps):
    sys.path.insert(1, deps)
os.environ.setdefault("MPLBACKEND", "Agg")


def main():
    modname, stratname, checkname = sys.argv[1:4]
    args = sys.argv[4:]
    runs = int(args[args.index("--runs") + 1])
    seed = int(args[args.index("--seed") + 1])
    out = args[args.index("--out") + 1]
    instrument = args[args.index("--instrument") + 1].split(",")
    os.makedirs(out, exist_ok=True)
    import atheris

    repo = os.path.abspath(os.environ.get("CYECCA_REPO", "/repo"))
    sys.path.insert(0, repo)
    import contextlib, importlib, io

    with contextlib.redirect_stdout(io.StringIO()):
        with atheris.instrument_imports(include=instrument):
            for m_ in instrument:
                importlib.import_module(m_)
    import hypothesis
    from hypothesis import HealthCheck, given, settings

    m = importlib.import_module(modname)
    from vlib.harness import Discard, Violation, jsonable

    counters = {"execs": 0, "checked": 0, "discarded": 0}
    check = getattr(m, checkname)

    def dump():
        with open(os.path.join(out, "counters.json"), "w") as f:
            json.dump(counters, f)

    def body(case):
        counters["execs"] += 1
        if counters["execs"] % 50 == 0:
            dump()
        try:
            check(case)
            counters["checked"] += 1
        except Discard:
            counters["discarded"] += 1
            hypothesis.reject()
        except Violation as v:
            with open(os.path.join(out, "violation.json"), "w") as f:
                json.dump({"case": jsonable(case), "message": v.msg, "details": jsonable(v.details)}, f, indent=1)
            dump()
            print("RESULT " + json.dumps(dict(counters, violation=v.msg[:300])), flush=True)
            os._exit(1)
        except Exception as e:  # an exception escaping the code under test is a finding as well
            import traceback
            tb = traceback.format_exc()
            if "/cyecca/" in tb:
                with open(os.path.join(out, "violation.json"), "w") as f:
                    json.dump({"case": jsonable(case), "message": "exception from code under test: %s: %s" % (type(e).__name__, str(e)[:300]),
                               "details": {"traceback": tb[-1500:]}}, f, indent=1)
                dump()
                os._exit(1)
            raise

    strat = getattr(m, stratname)()
    test = settings(database=None, deadline=None, suppress_health_check=list(HealthCheck))(given(strat)(body))
    corpus = os.path.join(out, "corpus")
    os.makedirs(corpus, exist_ok=True)

    def one(data):
        try:
            test.hypothesis.fuzz_one_input(data)
        except (hypothesis.errors.UnsatisfiedAssumption, hypothesis.errors.StopTest):
            pass

    def fin():
        dump()
        print("RESULT " + json.dumps(counters), flush=True)

    atheris.Setup([sys.argv[0], corpus, "-runs=%d" % runs, "-seed=%d" % (seed if seed != 0 else 1), "-max_len=4096", "-len_control=0",
                   "-print_final_stats=1"], one)
    try:
        atheris.Fuzz()
    finally:
        fin()


if __name__ == "__main__":
    main()
