#!/venv/bin/python
"""Confirm a seeded change and run the registered checks against it, in a scratch worktree.

usage: seedcheck.py <seed_dir> <PROP> [--patch A.patch --demo demo_A.py] [--no-suite] [--tier quick]
Prints a JSON summary; never touches /repo's working tree (uses `git worktree add` under /tmp and removes it).
"""
import argparse, json, os, shutil, subprocess, sys, tempfile, time

VERIF = os.path.dirname(os.path.dirname(os.path.abspath(__file__)))
PY = "/venv/bin/python"
SUITE = [PY, "-m", "pytest", "-q", "-p", "no:cacheprovider", "--timeout=900", "tests", "-x",
         "--deselect", "tests/estimate/attitude/test_attitude.py::Test_Attitude::test_generate_code",
         "--deselect", "tests/estimate/attitude/test_attitude.py::Test_Attitude::test_replay"]


def run(cmd, cwd, env=None, timeout=3600):
    e = dict(os.environ)
    e.update(env or {})
    t0 = time.time()
    p = subprocess.run(cmd, cwd=cwd, env=e, capture_output=True, text=True, timeout=timeout)
    return p.returncode, (p.stderr[-1500:] + "\n" + p.stdout[-6000:]), round(time.time() - t0, 1)


def main():
    ap = argparse.ArgumentParser()
    ap.add_argument("seed_dir")
    ap.add_argument("prop")
    ap.add_argument("--patch", default="patch.diff")
    ap.add_argument("--demo", default="demo.py")
    ap.add_argument("--no-suite", action="store_true")
    ap.add_argument("--tier", default="quick")
    ap.add_argument("--props", default=None, help="comma list of properties whose checks to run (default: PROP)")
    a = ap.parse_args()
    sd = os.path.abspath(a.seed_dir)
    wt = tempfile.mkdtemp(prefix="sc_", dir="/tmp")
    os.rmdir(wt)
    out = tempfile.mkdtemp(prefix="sc_out_", dir="/tmp")
    res = {"seed": sd, "prop": a.prop}
    try:
        subprocess.run(["git", "-C", "/repo", "worktree", "add", "-q", "--detach", wt, "HEAD"], check=True)
        env = {"PYTHONPATH": wt}
        rc, o, t = run([PY, os.path.join(sd, a.demo)], wt, env)
        res["demo_clean"] = {"rc": rc, "wall": t}
        ap_rc = subprocess.run(["git", "apply", os.path.join(sd, a.patch)], cwd=wt, capture_output=True, text=True)
        res["apply"] = ap_rc.returncode
        if ap_rc.returncode != 0:
            res["apply_err"] = ap_rc.stderr[-500:]
            print(json.dumps(res, indent=1))
            return 3
        rc, o, t = run([PY, os.path.join(sd, a.demo)], wt, env)
        res["demo_patched"] = {"rc": rc, "wall": t, "tail": o[-400:]}
        if not a.no_suite:
            rc, o, t = run(SUITE, wt, env)
            res["suite_patched"] = {"rc": rc, "wall": t, "tail": o[-200:]}
        res["checks"] = {}
        for pid in (a.props.split(",") if a.props else [a.prop]):
            rc, o, t = run([PY, os.path.join(VERIF, "run.py"), pid, "--tier", a.tier], VERIF,
                           {"CYECCA_REPO": wt, "VERIF_OUT": out})
            lines = [l for l in o.splitlines() if l.startswith("VIOLATION") or l.startswith("  cell=")]
            res["checks"][pid] = {"rc": rc, "wall": t, "violations": lines[:12], "tail": o[-300:] if rc not in (0, 1) else ""}
    finally:
        subprocess.run(["git", "-C", "/repo", "worktree", "remove", "--force", wt], capture_output=True)
        shutil.rmtree(wt, ignore_errors=True)
        shutil.rmtree(out, ignore_errors=True)
    print(json.dumps(res, indent=1))
    return 0


if __name__ == "__main__":
    sys.exit(main())
