#!/venv/bin/python
"""Coverage-guided fuzzing of cyecca.symbolic (C19) with atheris/libFuzzer driving the same Hypothesis
property as props/c19_symbolic.py (`test.hypothesis.fuzz_one_input`), with the semantic oracle inside the
target (differential evaluation SymPy evalf vs CasADi Function), not just crash detection.

usage: fuzz_c19.py <s2c|c2s> --runs N --seed S --out DIR
Prints one JSON line 'RESULT {...}' at the end; on a violation writes DIR/violation.json and exits 1.
"""
import json
import os
import sys

HERE = os.path.dirname(os.path.dirname(os.path.abspath(__file__)))
sys.path.insert(0, HERE)
deps = os.path.join(HERE, ".deps")
if os.path.isdir(deps):
    sys.path.insert(1, deps)
os.environ.setdefault("MPLBACKEND", "Agg")


def main():
    target = sys.argv[1]
    args = sys.argv[2:]
    runs = int(args[args.index("--runs") + 1])
    seed = int(args[args.index("--seed") + 1])
    out = args[args.index("--out") + 1]
    os.makedirs(out, exist_ok=True)
    import atheris

    repo = os.path.abspath(os.environ.get("CYECCA_REPO", "/repo"))
    sys.path.insert(0, repo)
    import contextlib, io

    with contextlib.redirect_stdout(io.StringIO()):
        with atheris.instrument_imports(include=["cyecca.symbolic"]):
            import cyecca.symbolic  # noqa: F401  (instrumented: coverage feedback comes from the converters)
    import hypothesis
    from hypothesis import HealthCheck, given, settings

    from props import c19_symbolic as m
    from vlib.harness import Discard, Violation, jsonable

    counters = {"execs": 0, "checked": 0, "discarded": 0}

    def dump():
        with open(os.path.join(out, "counters.json"), "w") as f:
            json.dump(counters, f)

    def body(case):
        counters["execs"] += 1
        if counters["execs"] % 200 == 0:
            dump()
        try:
            if target == "s2c":
                m.check_s2c(case, True)
            else:
                m.check_c2s(case)
            counters["checked"] += 1
        except Discard:
            counters["discarded"] += 1
            hypothesis.reject()
        except Violation as v:
            with open(os.path.join(out, "violation.json"), "w") as f:
                json.dump({"cell": "%s/atheris" % target, "case": jsonable(case), "message": v.msg, "details": jsonable(v.details)}, f, indent=1)
            dump()
            print("RESULT " + json.dumps(dict(counters, violation=v.msg[:300])), flush=True)
            os._exit(1)

    strat = m.s2c_case() if target == "s2c" else m.c2s_case("num")
    test = settings(database=None, deadline=None, suppress_health_check=list(HealthCheck))(given(strat)(body))
    corpus = os.path.join(out, "corpus")
    os.makedirs(corpus, exist_ok=True)

    def one(data):
        try:
            test.hypothesis.fuzz_one_input(data)
        except (hypothesis.errors.UnsatisfiedAssumption, hypothesis.errors.StopTest):
            pass

    import atexit

    def fin():
        print("RESULT " + json.dumps(counters), flush=True)

    atexit.register(fin)
    atheris.Setup([sys.argv[0], corpus, "-runs=%d" % runs, "-seed=%d" % (seed if seed != 0 else 1), "-max_len=2048", "-len_control=0", "-print_final_stats=1"], one)
    try:
        atheris.Fuzz()
    finally:
        fin()


if __name__ == "__main__":
    main()
