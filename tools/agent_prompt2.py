import json,sys
pid=sys.argv[1]
p=json.load(open('/tmp/prop_%s.json'%pid))
needs=json.load(open('/verif/tools/seed_needs.json'))
used=[v for k,v in needs.items() if k.startswith(pid+'-')]
import os
wt='/tmp/wt%s_%s'%(os.environ.get('R','3'),pid)
print(f"""You are helping to evaluate how good a verification effort is, by writing realistic *seeded defects* for a Python library.

Work ONLY inside the git worktree {wt} (a checkout of the library CogniPilot/cyecca: CasADi-based symbolic Lie groups, attitude estimators, quadrotor models, C code generation). Do not read, list or modify anything under /repo or /verif, and do not look for other people's verification code anywhere — your work must be independent. Python to use: /venv/bin/python (has casadi, numpy, scipy, sympy, simpy, mpmath, pytest). There is no network. Set the environment variable MPLBACKEND=Agg when importing cyecca.models or cyecca.estimate modules.

IMPORTANT for imports: always run python with the environment variable PYTHONPATH={wt} and from the directory {wt}, and verify once that `import cyecca; print(cyecca.__file__)` prints a path under {wt} (the venv otherwise imports another copy). Do NOT hard-code or assert the worktree path inside your demonstration programs (they will later be run from a different checkout).

The semantic property you target (JSON record):
{json.dumps(p, indent=1)}

Your task: produce THREE different, independent code changes (call them A, B and C) to the library source under {wt}/cyecca (not to tests) such that, for each change taken alone:
 1. the library still imports and the existing test suite still passes. The suite command is:
      cd {wt} && PYTHONPATH={wt} /venv/bin/python -m pytest -q -p no:cacheprovider --timeout=900 tests --deselect tests/estimate/attitude/test_attitude.py::Test_Attitude::test_replay
    (about 1-2 minutes; the deselected test already fails on the clean tree and is ignored). All other tests must pass with your change.
 2. the change BREAKS the property above (a genuine semantic violation of what the property states, not a style change), and
 3. the breakage is SUBTLE: it needs something specific to manifest — an unusual input region (a particular branch, sign, magnitude, a tie, a threshold neighbourhood, a narrow band), a particular group/representation/option/parameter combination, a multi-step sequence of operations or a particular schedule/timing, a small numerical error (1e-6..1e-8) that only an accurate reference reveals, or two cooperating sites that each look fine alone. It must NOT be something that ordinary use or a smoke test at a generic input would expose at once; prefer realistic mistakes a maintainer could plausibly make in a refactor or "optimisation". A, B and C should have different root causes in different functions/branches, and should exercise DIFFERENT clauses of the property where possible.
 4. Earlier seeded defects for this property already used the following ideas — do NOT reuse them or close variants of them, find different functions / clauses / mechanisms:
{chr(10).join('      - '+u for u in used)}
 5. you write, for each change, a small standalone demonstration program that exits with status 1 (and prints why) when run against the changed tree and exits 0 when run against the clean tree. Verify both directions yourself. Keep each demonstration's runtime under two minutes.

Never use `git stash` (the stash is shared between worktrees of this repository and other people work in sibling worktrees); to toggle your change use `git diff > file.patch`, `git apply -R file.patch`, `git apply file.patch` or `git checkout -- .`.

Deliverables, all inside the directory {wt}/_seeded/ (create it):
  A.patch, B.patch, C.patch  — each is `git diff` output against the clean HEAD for that change alone (applicable with `git apply` from the worktree root);
  demo_A.py, demo_B.py, demo_C.py — the demonstrations (run as: cd {wt} && PYTHONPATH={wt} /venv/bin/python _seeded/demo_A.py);
  needs.json — a JSON object {{"A": "...", "B": "...", "C": "..."}} with one or two sentences per change: what was changed and what it needs in order to manifest;
  notes.md — for each change: what it breaks, what it needs in order to manifest, and the exact commands you ran with their outcomes (test suite result with the change, demo result with and without the change).
When you are done, leave the worktree's tracked files CLEAN (git checkout -- . ; the _seeded directory is untracked and stays). Your final message should be a short summary of A, B and C (files touched, what is needed to manifest) and confirmation of the verification steps. Do not spend effort on anything else.""")
