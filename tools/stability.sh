#!/bin/sh
# usage: stability.sh "seed list" [props...]  — quick tier in fresh processes, without touching evidence/ and replays/
SEEDS=${1:-"11 12 13"}; shift
PROPS=${*:-"C01 C02 C03 C04 C05 C06 C07 C08 C09 C10 C11 C12 C13 C14 C15 C16 C17 C18 C19 C20"}
export MPLBACKEND=Agg
OUT=$(mktemp -d /tmp/stab_XXXX)
for s in $SEEDS; do for p in $PROPS; do
  VERIF_SEED=$s VERIF_OUT=$OUT /venv/bin/python /verif/run.py $p --tier quick > $OUT/log 2> $OUT/err; rc=$?
  echo "seed=$s $p rc=$rc $(grep -c '^VIOLATION' $OUT/log) $(tail -1 $OUT/log | cut -c1-110)"
  if [ $rc -ne 0 ]; then grep -A1 '^VIOLATION' $OUT/log | cut -c1-300 | head -6; grep -v Warning $OUT/err | tail -5; mkdir -p /tmp/stab_keep; cp -r $OUT/replays /tmp/stab_keep/replays_${p}_$s 2>/dev/null; fi
done; done
rm -rf $OUT
