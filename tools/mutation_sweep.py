#!/venv/bin/python
"""Systematic mutation sweep: AST-level single-point mutants of cyecca source files, each run against the quick
checks of the properties anchored in that file (stop at first kill).  Never touches /repo: every mutant lives in a
scratch copy of /repo/cyecca under /tmp that is deleted afterwards.

usage: mutation_sweep.py --out results.jsonl [--per-file N] [--jobs J] [--seed S] [--files a.py,b.py]
"""
import argparse
import ast
import copy
import json
import os
import random
import shutil
import subprocess
import sys
import tempfile
import time
from concurrent.futures import ThreadPoolExecutor

VERIF = os.path.dirname(os.path.dirname(os.path.abspath(__file__)))
REPO = "/repo"
FILE_PROPS = {
    "cyecca/lie/group_so3.py": ["C07", "C06", "C05", "C01", "C04", "C02", "C03"],
    "cyecca/lie/group_se3.py": ["C05", "C06", "C01", "C04", "C02", "C03"],
    "cyecca/lie/group_se23.py": ["C08", "C05", "C06", "C01", "C04", "C02", "C03"],
    "cyecca/lie/group_se2.py": ["C06", "C01", "C04", "C02", "C03"],
    "cyecca/lie/group_so2.py": ["C01", "C04", "C02", "C03"],
    "cyecca/lie/group_rn.py": ["C01", "C04", "C02", "C03"],
    "cyecca/lie/direct_product.py": ["C01", "C04", "C02", "C03"],
    "cyecca/lie/base.py": ["C01", "C04", "C02", "C03"],
    "cyecca/symbolic.py": ["C19", "C06", "C08", "C05", "C02"],
    "cyecca/util.py": ["C10", "C11"],
    "cyecca/models/rdd2.py": ["C13", "C15", "C14", "C08", "C17", "C09"],
    "cyecca/models/rdd2_loglinear.py": ["C15", "C14", "C17"],
    "cyecca/models/bezier.py": ["C18", "C14"],
    "cyecca/models/mr_ref_traj.py": ["C14"],
    "cyecca/models/quadrotor.py": ["C16", "C17"],
    "cyecca/estimate/attitude/algorithms/mrp.py": ["C11", "C12"],
    "cyecca/estimate/attitude/algorithms/sim.py": ["C12"],
    "cyecca/estimate/attitude/estimator.py": ["C20", "C12"],
    "cyecca/estimate/attitude/simulator.py": ["C12"],
    "cyecca/estimate/attitude/launch.py": ["C12"],
    "cyecca/sim/uros.py": ["C20"],
    "cyecca/codegen.py": ["C09"],
    "cyecca/estimate/attitude/algorithms/__init__.py": ["C09"],
}
SWAP_CALLS = {"sin": "cos", "cos": "sin", "fmin": "fmax", "fmax": "fmin", "asin": "acos", "acos": "asin", "tan": "atan", "floor": "ceil"}


class Finder(ast.NodeVisitor):
    def __init__(self):
        self.sites = []
        self.skip_depth = 0

    def visit_FunctionDef(self, node):
        # skip printing / plotting / argparse helpers
        if node.name in ("__repr__", "__str__", "count_ops", "sim"):
            return
        self.generic_visit(node)

    def visit_If(self, node):
        # skip `if __name__ == "__main__"` blocks except for C09-relevant export lists (kept: they are exercised through runpy)
        self.generic_visit(node)

    def visit_BinOp(self, node):
        if isinstance(node.op, (ast.Add, ast.Sub, ast.Mult, ast.Div)):
            # ignore string formatting / list concatenation
            if not (isinstance(node.left, ast.Constant) and isinstance(node.left.value, str)) and not isinstance(node.left, (ast.List, ast.JoinedStr)):
                self.sites.append(("binop", node))
        self.generic_visit(node)

    def visit_UnaryOp(self, node):
        if isinstance(node.op, ast.USub) and not isinstance(node.operand, ast.Constant):
            self.sites.append(("usub", node))
        self.generic_visit(node)

    def visit_Compare(self, node):
        if len(node.ops) == 1 and isinstance(node.ops[0], (ast.Lt, ast.LtE, ast.Gt, ast.GtE, ast.Eq, ast.NotEq)):
            if not (isinstance(node.comparators[0], ast.Constant) and isinstance(node.comparators[0].value, str)):
                self.sites.append(("cmp", node))
        self.generic_visit(node)

    def visit_Constant(self, node):
        if isinstance(node.value, (int, float)) and not isinstance(node.value, bool):
            self.sites.append(("const", node))

    def visit_Subscript(self, node):
        sl = node.slice
        if isinstance(sl, ast.Tuple) and len(sl.elts) == 2 and all(isinstance(e, ast.Constant) for e in sl.elts) and sl.elts[0].value != sl.elts[1].value:
            self.sites.append(("subswap", node))
        self.generic_visit(node)

    def visit_Call(self, node):
        fn = node.func
        name = fn.attr if isinstance(fn, ast.Attribute) else (fn.id if isinstance(fn, ast.Name) else None)
        if name in SWAP_CALLS:
            self.sites.append(("callswap", node))
        if name in ("atan2", "cross") and len(node.args) == 2:
            self.sites.append(("argswap", node))
        self.generic_visit(node)


def mutate(tree, idx, rng):
    """Apply mutation number idx (in Finder order) to a deep copy; returns (new_tree, description) or None."""
    t = copy.deepcopy(tree)
    f = Finder()
    f.visit(t)
    if idx >= len(f.sites):
        return None
    kind, node = f.sites[idx]
    line = getattr(node, "lineno", 0)
    if kind == "binop":
        new = {ast.Add: ast.Sub, ast.Sub: ast.Add, ast.Mult: ast.Div, ast.Div: ast.Mult}[type(node.op)]()
        desc = "%s -> %s" % (type(node.op).__name__, type(new).__name__)
        node.op = new
    elif kind == "usub":
        desc = "drop unary minus"
        node.op = ast.UAdd()
    elif kind == "cmp":
        m = {ast.Lt: ast.LtE, ast.LtE: ast.Lt, ast.Gt: ast.GtE, ast.GtE: ast.Gt, ast.Eq: ast.NotEq, ast.NotEq: ast.Eq}
        if rng.random() < 0.4 and type(node.ops[0]) in (ast.Lt, ast.Gt, ast.LtE, ast.GtE):
            m = {ast.Lt: ast.Gt, ast.Gt: ast.Lt, ast.LtE: ast.GtE, ast.GtE: ast.LtE}
        new = m[type(node.ops[0])]()
        desc = "%s -> %s" % (type(node.ops[0]).__name__, type(new).__name__)
        node.ops = [new]
    elif kind == "const":
        v = node.value
        if isinstance(v, int):
            nv = v + 1 if v in (0, 1, 2, 3, 4, 5, 6) else v * 2
        else:
            nv = v * rng.choice([2.0, 0.5, 1.01])
        desc = "const %r -> %r" % (v, nv)
        node.value = nv
    elif kind == "subswap":
        a, b = node.slice.elts
        desc = "index [%r,%r] -> [%r,%r]" % (a.value, b.value, b.value, a.value)
        node.slice.elts = [b, a]
    elif kind == "callswap":
        fn = node.func
        old = fn.attr if isinstance(fn, ast.Attribute) else fn.id
        if isinstance(fn, ast.Attribute):
            fn.attr = SWAP_CALLS[old]
        else:
            fn.id = SWAP_CALLS[old]
        desc = "call %s -> %s" % (old, SWAP_CALLS[old])
    elif kind == "argswap":
        node.args = [node.args[1], node.args[0]]
        desc = "swap arguments of %s" % (node.func.attr if isinstance(node.func, ast.Attribute) else node.func.id)
    else:
        return None
    return t, "line %d: %s" % (line, desc)


def run_mutant(job):
    rel, idx, desc, src, props, nworkers = job
    d = tempfile.mkdtemp(prefix="msw_", dir="/tmp")
    out = tempfile.mkdtemp(prefix="msw_out_", dir="/tmp")
    res = {"file": rel, "idx": idx, "mutation": desc, "killed_by": None, "props_run": [], "status": None}
    try:
        shutil.copytree(os.path.join(REPO, "cyecca"), os.path.join(d, "cyecca"))
        shutil.copytree(os.path.join(REPO, "scripts"), os.path.join(d, "scripts"))
        with open(os.path.join(d, rel), "w") as f:
            f.write(src)
        env = dict(os.environ, CYECCA_REPO=d, VERIF_OUT=out, MPLBACKEND="Agg", VERIF_WORKERS=str(nworkers), PYTHONHASHSEED="0")
        t0 = time.time()
        for pid in props:
            r = subprocess.run(["/venv/bin/python", os.path.join(VERIF, "run.py"), pid, "--tier", "quick"], cwd=VERIF, env=env,
                               capture_output=True, text=True, timeout=3600)
            res["props_run"].append((pid, r.returncode))
            if r.returncode == 1:
                res["killed_by"] = pid
                cells = [l.strip()[:200] for l in r.stdout.splitlines() if l.startswith("  cell=")]
                res["cell"] = cells[:2]
                break
            if r.returncode == 2:
                res["killed_by"] = pid + " (harness error)"
                res["err"] = (r.stderr or "")[-600:]
                break
        res["status"] = "killed" if res["killed_by"] else "survived"
        res["wall"] = round(time.time() - t0, 1)
    except Exception as e:
        res["status"] = "error: %s" % e
    finally:
        shutil.rmtree(d, ignore_errors=True)
        shutil.rmtree(out, ignore_errors=True)
    return res


def main():
    ap = argparse.ArgumentParser()
    ap.add_argument("--out", required=True)
    ap.add_argument("--per-file", type=int, default=20)
    ap.add_argument("--jobs", type=int, default=4)
    ap.add_argument("--seed", type=int, default=1)
    ap.add_argument("--files", default=None)
    ap.add_argument("--recheck", default=None, help="results file of an earlier sweep (same --seed/--per-file): rerun its survivors only")
    a = ap.parse_args()
    only = None
    if a.recheck:
        only = set()
        for l in open(a.recheck):
            r = json.loads(l)
            if r["status"] != "killed":
                only.add((r["file"], r["mutation"]))
    rng = random.Random(a.seed)
    files = a.files.split(",") if a.files else sorted(FILE_PROPS)
    jobs = []
    for rel in files:
        src = open(os.path.join(REPO, rel)).read()
        tree = ast.parse(src)
        f = Finder()
        f.visit(tree)
        n = len(f.sites)
        idxs = list(range(n))
        rng.shuffle(idxs)
        taken = 0
        for idx in idxs:
            if taken >= a.per_file:
                break
            m = mutate(tree, idx, rng)
            if m is None:
                continue
            t, desc = m
            try:
                new_src = ast.unparse(t)
                compile(new_src, rel, "exec")
            except Exception:
                continue
            if only is None or (rel, desc) in only:
                jobs.append((rel, idx, desc, new_src, FILE_PROPS[rel], max(2, 16 // a.jobs)))
            taken += 1
    print("mutants:", len(jobs), flush=True)
    done = 0
    with open(a.out, "w") as fo, ThreadPoolExecutor(a.jobs) as ex:
        for res in ex.map(run_mutant, jobs):
            fo.write(json.dumps(res) + "\n")
            fo.flush()
            done += 1
            print("%d/%d %s %s :: %s -> %s" % (done, len(jobs), res["status"], res["file"], res["mutation"], res.get("killed_by")), flush=True)


if __name__ == "__main__":
    main()
