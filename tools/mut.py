#!/venv/bin/python
"""Sensitivity probe: copy /repo/cyecca (+scripts) to a scratch dir, apply one textual substitution,
run the given property's check against it, delete the copy.
usage: mut.py PROP[,PROP2] relative/file.py 'old text' 'new text' [--tier quick] [--cells PATTERN]
exit code 0 if every listed check reported a violation (mutant killed)."""
import os, shutil, subprocess, sys, tempfile

VERIF = os.path.dirname(os.path.dirname(os.path.abspath(__file__)))


def main():
    args = sys.argv[1:]
    tier = "quick"
    cells = None
    if "--tier" in args:
        i = args.index("--tier"); tier = args[i + 1]; del args[i:i + 2]
    if "--cells" in args:
        i = args.index("--cells"); cells = args[i + 1]; del args[i:i + 2]
    props, rel, old, new = args
    d = tempfile.mkdtemp(prefix="mut_", dir="/tmp")
    out = tempfile.mkdtemp(prefix="mut_out_", dir="/tmp")
    try:
        for sub in ("cyecca", "scripts"):
            shutil.copytree(os.path.join("/repo", sub), os.path.join(d, sub))
        p = os.path.join(d, rel)
        s = open(p).read()
        if s.count(old) < 1:
            print("pattern not found"); return 3
        open(p, "w").write(s.replace(old, new, 1))
        allk = True
        for pid in props.split(","):
            cmd = ["/venv/bin/python", os.path.join(VERIF, "run.py"), pid, "--tier", tier]
            if cells:
                cmd += ["--cells", cells]
            env = dict(os.environ, CYECCA_REPO=d, VERIF_OUT=out)
            r = subprocess.run(cmd, cwd=VERIF, env=env, capture_output=True, text=True)
            v = [l for l in r.stdout.splitlines() if l.startswith("VIOLATION") or l.startswith("  cell=")]
            print("%s rc=%d  %s" % (pid, r.returncode, "KILLED" if r.returncode == 1 else "SURVIVED" if r.returncode == 0 else "ERROR"))
            for l in v[:6]:
                print("   ", l[:220])
            if r.returncode not in (0, 1):
                print(r.stderr[-1500:])
            allk = allk and r.returncode == 1
        return 0 if allk else 1
    finally:
        shutil.rmtree(d, ignore_errors=True)
        shutil.rmtree(out, ignore_errors=True)


if __name__ == "__main__":
    sys.exit(main())
