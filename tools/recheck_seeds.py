#!/venv/bin/python
"""Re-run the registered quick checks against every kept seeded change (scratch copies of /repo/cyecca, never /repo itself)
and report the ones that are no longer caught.  usage: recheck_seeds.py [--jobs 4] [--only GLOB] [--out file.json]"""
import fnmatch, glob, json, os, shutil, subprocess, sys, tempfile
from concurrent.futures import ThreadPoolExecutor

VERIF = os.path.dirname(os.path.dirname(os.path.abspath(__file__)))


def one(d):
    m = json.load(open(os.path.join(d, "meta.json")))
    props = [p for p, c in m.get("checks", {}).items() if c.get("caught")] or [m["breaks_property"]]
    tmp = tempfile.mkdtemp(prefix="rs_", dir="/tmp")
    out = tempfile.mkdtemp(prefix="rs_out_", dir="/tmp")
    res = {"seed": m["name"], "props": props, "caught_by": []}
    try:
        for sub in ("cyecca", "scripts"):
            shutil.copytree(os.path.join("/repo", sub), os.path.join(tmp, sub))
        r = subprocess.run(["git", "apply", os.path.join(d, "patch.diff")], cwd=tmp, capture_output=True, text=True)
        if r.returncode != 0:
            res["error"] = "patch does not apply: " + r.stderr[-300:]
            return res
        env = dict(os.environ, CYECCA_REPO=tmp, VERIF_OUT=out, MPLBACKEND="Agg", VERIF_WORKERS=str(JOBW), PYTHONHASHSEED="0")
        for p in props:
            r = subprocess.run(["/venv/bin/python", os.path.join(VERIF, "run.py"), p, "--tier", "quick"], cwd=VERIF, env=env,
                               capture_output=True, text=True, timeout=3600)
            if r.returncode == 1:
                res["caught_by"].append(p)
                break
            if r.returncode == 2:
                res.setdefault("harness_errors", []).append(p)
    finally:
        shutil.rmtree(tmp, ignore_errors=True)
        shutil.rmtree(out, ignore_errors=True)
    return res


if __name__ == "__main__":
    a = sys.argv[1:]
    jobs = int(a[a.index("--jobs") + 1]) if "--jobs" in a else 4
    only = a[a.index("--only") + 1] if "--only" in a else "*"
    outf = a[a.index("--out") + 1] if "--out" in a else None
    JOBW = max(2, 16 // jobs)
    dirs = [d for d in sorted(glob.glob(os.path.join(VERIF, "seeded", "C*-*"))) if os.path.exists(os.path.join(d, "meta.json"))
            and fnmatch.fnmatch(os.path.basename(d), only)]
    results = []
    with ThreadPoolExecutor(jobs) as ex:
        for r in ex.map(one, dirs):
            results.append(r)
            print("%-10s %s" % (r["seed"], "caught by " + ",".join(r["caught_by"]) if r["caught_by"] else "NOT CAUGHT " + json.dumps(r)), flush=True)
    missed = [r["seed"] for r in results if not r["caught_by"]]
    print("seeds: %d, caught: %d, missed: %s" % (len(results), len(results) - len(missed), missed))
    if outf:
        json.dump(results, open(outf, "w"), indent=1)
    sys.exit(1 if missed else 0)
