#!/venv/bin/python
"""Confirm an incoming seeded change (suite passes, demo fails with / passes without, which checks catch it)
and store it as /verif/seeded/<name>/{patch.diff, demo.py, notes.md, meta.json}.
usage: adopt_seed.py <incoming_dir> <A|B|...> <PROP> [--props C01,C02] [--tier quick]"""
import json, os, shutil, subprocess, sys

VERIF = os.path.dirname(os.path.dirname(os.path.abspath(__file__)))


def _needs(inc, letter):
    f = os.path.join(inc, "needs.json")
    if os.path.exists(f):
        try:
            return json.load(open(f)).get(letter, "see notes.md")
        except Exception:
            pass
    return "see notes.md (section %s)" % letter


def main():
    inc, letter, prop = sys.argv[1:4]
    rest = sys.argv[4:]
    suffix = ""
    if "--suffix" in rest:
        i = rest.index("--suffix")
        suffix = rest[i + 1]
        del rest[i:i + 2]
    name = "%s-%s%s" % (prop, suffix, letter)
    dst = os.path.join(VERIF, "seeded", name)
    os.makedirs(dst, exist_ok=True)
    shutil.copy(os.path.join(inc, "%s.patch" % letter), os.path.join(dst, "patch.diff"))
    shutil.copy(os.path.join(inc, "demo_%s.py" % letter), os.path.join(dst, "demo.py"))
    for fn in os.listdir(inc):  # helper modules shared by the demos
        if (fn.startswith("_") or fn == "demo_common.py") and fn.endswith(".py"):
            shutil.copy(os.path.join(inc, fn), os.path.join(dst, fn))
    if os.path.exists(os.path.join(inc, "notes.md")):
        shutil.copy(os.path.join(inc, "notes.md"), os.path.join(dst, "notes.md"))
    cmd = ["/venv/bin/python", os.path.join(VERIF, "tools", "seedcheck.py"), dst, prop] + rest
    r = subprocess.run(cmd, capture_output=True, text=True)
    try:
        res = json.loads(r.stdout[r.stdout.index("{"):])
    except Exception:
        print("seedcheck failed:", r.stdout[-2000:], r.stderr[-2000:])
        return 2
    ok_demo = res.get("demo_clean", {}).get("rc") == 0 and res.get("demo_patched", {}).get("rc") not in (0, None)
    ok_suite = res.get("suite_patched", {}).get("rc") == 0
    caught = {k: v["rc"] == 1 for k, v in res.get("checks", {}).items()}
    head = subprocess.run(["git", "-C", "/repo", "rev-parse", "--short", "HEAD"], capture_output=True, text=True).stdout.strip()
    meta = {
        "name": name,
        "breaks_property": prop,
        "origin": "independent sub-agent given only the property text and a scratch worktree",
        "needs_to_manifest": _needs(inc, letter),
        "confirmed": {
            "base_commit": head,
            "patch_applies": res.get("apply") == 0,
            "demo_passes_on_clean_tree": res.get("demo_clean", {}).get("rc") == 0,
            "demo_fails_with_change": res.get("demo_patched", {}).get("rc") not in (0, None),
            "existing_suite_passes_with_change": ok_suite,
            "suite_tail": res.get("suite_patched", {}).get("tail", ""),
        },
        "what_was_run": "tools/seedcheck.py in a scratch git worktree of /repo (never /repo itself): demo on clean tree, git apply, demo, pinned pytest suite (minus the two always-failing tests), then run.py <property> --tier quick with CYECCA_REPO=<worktree>",
        "checks": {k: {"caught": v["rc"] == 1, "rc": v["rc"], "wall_s": v["wall"], "violating_cells": [l.strip() for l in v["violations"] if l.startswith("  cell=")][:6]}
                   for k, v in res.get("checks", {}).items()},
        "kept": bool(ok_demo and ok_suite),
    }
    json.dump(meta, open(os.path.join(dst, "meta.json"), "w"), indent=1)
    print(name, "kept" if meta["kept"] else "NOT-CONFIRMED", "caught:", caught)
    return 0


if __name__ == "__main__":
    sys.exit(main())
