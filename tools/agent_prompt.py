import json,sys
pid=sys.argv[1]
p=json.load(open('/tmp/prop_%s.json'%pid))
wt='/tmp/wt_%s'%pid
print(f"""You are helping to evaluate how good a verification effort is, by writing realistic *seeded defects* for a Python library.

Work ONLY inside the git worktree {wt} (a checkout of the library CogniPilot/cyecca: CasADi-based symbolic Lie groups, attitude estimators, quadrotor models, C code generation). Do not read, list or modify anything under /repo or /verif, and do not look for other people's verification code anywhere — your work must be independent. Python to use: /venv/bin/python (has casadi, numpy, scipy, sympy, simpy, mpmath, pytest). There is no network.

IMPORTANT for imports: always run python with the environment variable PYTHONPATH={wt} and from the directory {wt}, and verify once that `import cyecca; print(cyecca.__file__)` prints a path under {wt} (the venv otherwise imports another copy).

The semantic property you target (JSON record):
{json.dumps(p, indent=1)}

Your task: produce TWO different, independent code changes (call them A and B) to the library source under {wt}/cyecca (not to tests) such that, for each change taken alone:
 1. the library still imports and the existing test suite still passes. The suite command is:
      cd {wt} && PYTHONPATH={wt} /venv/bin/python -m pytest -q -p no:cacheprovider --timeout=900 tests --deselect tests/estimate/attitude/test_attitude.py::Test_Attitude::test_generate_code --deselect tests/estimate/attitude/test_attitude.py::Test_Attitude::test_replay
    (about 2 minutes; those two deselected tests already fail on the clean tree and are ignored). All other tests must pass with your change.
 2. the change BREAKS the property above (a genuine semantic violation of what the property states, not a style change), and
 3. the breakage needs something specific to manifest — e.g. an unusual input region (a particular branch, sign, magnitude, a tie, a threshold neighbourhood), a particular group/representation/option combination, a multi-step sequence of operations, a particular schedule/timing, or two cooperating sites that each look fine alone. It must NOT be something that ordinary use or a casual smoke test at a generic input would expose at once; prefer realistic mistakes a maintainer could plausibly make in a refactor (wrong sign in one branch, swapped index, off-by-one threshold, dropped term that vanishes in common cases, stale cached value, etc.). A and B should have different root causes in different functions/branches.
 4. you write, for each change, a small standalone demonstration program that exits with status 1 (and prints why) when run against the changed tree and exits 0 when run against the clean tree. Verify both directions yourself.

Deliverables, all inside the directory {wt}/_seeded/ (create it):
  A.patch, B.patch  — each is `git diff` output against the clean HEAD for that change alone (applicable with `git apply` from the worktree root);
  demo_A.py, demo_B.py — the demonstrations (run as: cd {wt} && PYTHONPATH={wt} /venv/bin/python _seeded/demo_A.py);
  notes.md — for each change: what it breaks, what it needs in order to manifest, and the exact commands you ran with their outcomes (test suite result with the change, demo result with and without the change).
Never use `git stash` (the stash is shared between worktrees of this repository and other people work in sibling worktrees); to toggle your change use `git diff > file.patch`, `git apply -R file.patch`, `git apply file.patch` or `git checkout -- .`.
When you are done, leave the worktree's tracked files CLEAN (git checkout -- . ; the _seeded directory is untracked and stays). Your final message should be a short summary of A and B (files touched, what is needed to manifest) and confirmation of the verification steps. Do not spend effort on anything else.""")
