#!/venv/bin/python
"""Regenerates /verif/MANIFEST.json from the table below (so it stays valid at all times)."""
import json
import os
import subprocess

HERE = os.path.dirname(os.path.dirname(os.path.abspath(__file__)))

# id -> (technique, level text, level note, design ref)
CLAIMED = {}


def claim(pid, technique, text, note, ref):
    CLAIMED[pid] = (technique, text, note, ref)


claim(
    "C01",
    "Hypothesis property-based testing: generated element pairs/triples vs numpy matrix algebra (homomorphism, inverse, identity, associativity, from_Matrix round trip, direct-product blocks)",
    "Exploration: seeded Hypothesis search over stratified valid elements of all 16 exposed groups (every SO(3) parameterisation plugged into SE(3)/SE_2(3)) and generated direct products; the oracle is numpy matrix multiplication/inversion of the matrix forms, compared two-sidedly at 1e-9 relative. Finds counterexamples, never proves absence.",
    "Trusts numpy linear algebra and the harness encoders (axis-angle -> quaternion/MRP/DCM/Euler written from textbook formulas). MRP pairs within 1e-2 of the 360-degree singularity and Euler inputs inside the gimbal band are outside the property's domain and discarded (counted).",
    "DESIGN.md §3 C01",
)

claim(
    "C02",
    "Hypothesis property-based testing with forced angle stratification: M(exp x) vs an independent matrix exponential (scipy / mpmath 50 digits) of the algebra matrix; exp(-x), one-parameter subgroup and exp(0) laws",
    "Exploration: for every (algebra, target group) incl. all SO(3) parameterisations and direct sums, generated algebra vectors with the rotation angle forced through every stratum (0, denormal, tiny, both sides of each series switch to the ulp, mid, near pi, pi, beyond pi, near a gimbal pole) are exponentiated and compared with expm(hat(x)); plus metamorphic laws. Sampled, not exhaustive.",
    "Trusts scipy.linalg.expm (quick) and the mpmath Taylor scaling-and-squaring exponential written in vlib/ref.py (thorough); hat(x) is cyecca's own algebra to_Matrix, as the property states. Angles < 2pi-0.05.",
    "DESIGN.md §3 C02",
)
claim(
    "C03",
    "Hypothesis property-based testing: exp(log X)=X and log(exp x)=x round trips, principal-log oracle (logm + atan2 rotation log), cross-representation differential of log",
    "Exploration: generated elements of every group/representation (negative-scalar quaternions, shadow MRPs, DCM, Euler) at least 1e-2 rad away from pi; round trips compared as matrices / vectors; the principal cell compares with vee(logm(M(X))) and a harness-side principal rotation log; the crossrep cells encode one rotation into all representations and compare the logs pairwise and with axis*angle.",
    "Trusts scipy.linalg.logm and the harness encoders. Tolerances scale with 1/(pi-angle) and 1+|translations|.",
    "DESIGN.md §3 C03",
)

claim(
    "C04",
    "Hypothesis property-based testing: Ad vs numpy conjugation projected on the algebra basis, ad vs bracket vs matrix commutator, antisymmetry/Jacobi, Ad_exp = expm(ad) (scipy), Ad homomorphism, shapes",
    "Exploration: for every group/algebra and every SO(3) parameterisation, generated (X, Y, x, y, z) are checked against matrix conjugation and commutators computed with numpy on cyecca's own matrix forms; the vee map is a least-squares projection on the basis hat(e_i) with closure check, so no index convention is trusted.",
    "Trusts numpy/scipy linear algebra. Operations that raise NotImplementedError (Ad/bracket of direct products) are out of scope and listed under excluded in the evidence.",
    "DESIGN.md §3 C04",
)
claim(
    "C05",
    "Hypothesis property-based testing against an independent derivative of the matrix exponential (complex-step through scipy expm / 80-digit mpmath central differences); J J^-1 = I, J_l = Ad J_r = J_r(-x); exact directional derivatives of quaternion/MRP -> matrix maps for the kinematic Jacobians",
    "Exploration: so(3), se(3), se_2(3) vectors with rotation angle forced through all strata up to 6 rad and arbitrary translational parts; every column of J_l/J_r (and left_Q/right_Q) is compared with d/de expm(hat(x+e e_i)) expm(-hat(x)); group-level Jacobians are checked through R' = [w]x R / R [w]x and q.q' = 0.",
    "Trusts scipy.linalg.expm on complex matrices (complex-step differentiation, h = 1e-30) in the quick tier and mpmath in the thorough tier; hat is cyecca's own basis.",
    "DESIGN.md §3 C05",
)
claim(
    "C06",
    "Hypothesis property-based testing with forced small-angle stratification against a 50-digit mpmath oracle (absolute 1e-9), plus finiteness of casadi.jacobian at and around zero",
    "Exploration: every public function that consumes a series coefficient (so3/se3/se23 Jacobians, inverses, Q blocks; exp and log of 13 groups; the 12 conversions) is evaluated at theta = 0, denormals, 1e-8..1e-2, each Taylor/closed-form switch to the ulp on both sides and up to 1 rad, and compared with the exact value computed by mpmath at the same double inputs; AD Jacobians must be finite at 0, denormal, tiny and switch points.",
    "Trusts mpmath. The exact Jacobian is the power series phi(+-ad_x) with ad from the structure constants of the hat basis. Bound asserted on public functions (not on raw series coefficients), for O(1) translational inputs.",
    "DESIGN.md §3 C06",
)
claim(
    "C07",
    "Hypothesis property-based testing: 12 ordered conversions + from_Matrix entry points + from_Mrp_alternative + shadow_if_necessary vs Rodrigues / 3-2-1 reference matrices, validity predicates on outputs, Shepperd-branch and gimbal-band class coverage enforced",
    "Exploration: generated rotations (incl. exactly 0 and pi, tie axes for every Shepperd branch, both gimbal poles and the band edge to 1e-9, q0 ~ -1 quaternions, shadow MRPs) are encoded by the harness, converted by cyecca and compared as rotation matrices (1e-9 outside the gimbal band, 2.5e-3 rad geodesic inside); outputs must be valid representatives.",
    "Trusts the harness encoders/decoders (textbook formulas in vlib/ref.py). Euler sources near a pole are generated as explicit triples.",
    "DESIGN.md §3 C07",
)

claim(
    "C08",
    "Hypothesis property-based testing against a 40-digit mpmath Van-Loan closed-form flow: single steps with |w|dt forced through every stratum, semigroup law, generated step sequences (histories), dt = 0, unit-norm drift; exp_mixed on other SO(3) parameterisations",
    "Exploration: the generated C-bound function strapdown_ins_propagate and the group method exp_mixed are compared with the exact solution of p'=v, v'=Ra-g e3, R'=R[w]x obtained from the matrix exponential of the augmented system in extended precision (no numerical integrator), to 1e-11 relative, for dt from 1e-4 to 5 s, rates to 1e3 rad/s (|w|dt up to 150 rad) and sequences of up to 12 piecewise-constant steps.",
    "Trusts mpmath and the Taylor scaling-and-squaring exponential in vlib/ref.py. Input quaternions are unit to round-off.",
    "DESIGN.md §3 C08",
)
claim(
    "C10",
    "Hypothesis property-based testing: numpy reference algebra for the square-root predictor/corrector per (n, m), exact triangular/diagonal structure checks for LDL/UDU, exact rational oracle for RK4 on cubic-in-time fields, Taylor-4 oracle on linear fields, observed local order on a nonlinear field",
    "Exploration: cyecca.util functions are built on SX symbols for n = 2..6 (2..8 thorough) and m = 1..4 and evaluated on generated W, F, Q, H, Rs (non-symmetric Rs, rank-deficient Q, zero columns in H); every stated identity is checked with numpy to a tolerance scaled by the conditioning; the factorizations for n = 1..8; RK4 exactness with fractions.Fraction.",
    "Trusts numpy linear algebra. n = 1 is rejected by sqrt_covariance_predict itself and is outside the domain.",
    "DESIGN.md §3 C10",
)
claim(
    "C13",
    "Hypothesis property-based testing of the piecewise-linear allocator against the forward motor geometry: range, joint feasibility => exact, moment feasibility => exact moment + least thrust shift; constructed dyadic boundary cases (headroom exactly 0 on one/both sides); saturation-cell histogram enforced",
    "Exploration: thousands of generated (F_max, l, Cm, Ct, T, M) over several decades plus exact boundary constructions; the oracle recomputes the range-limited demand and the least-shift thrust from the stated property and compares G F with it at 1e-9 relative; every saturation cell (joint / moment-only / infeasible x sign of the two headrooms, ties) must be populated.",
    "Trusts the sign pattern of the shipped mixer (also cross-checked against the function's own F_moment/F_thrust outputs).",
    "DESIGN.md §3 C13",
)
claim(
    "C16",
    "Hypothesis property-based testing of model['f'], g_accel, g_gyro over generated states, commands and parameter sets against Newton-Euler balances, per-rotor wrench sums, hover/free-fall identities, world-frame equivariance (metamorphic) and the motor lag law",
    "Exploration: 17-state/4-input/39-parameter space sampled with generated (not only default) masses, inertias, arm geometry, spin directions and coefficients; identities are checked with numpy to 1e-9..1e-10 relative to the terms of each balance.",
    "Trusts the harness's own rigid-body equations (quaternion -> matrix, cross products) and the documented drag / aerodynamic damping terms of the model.",
    "DESIGN.md §3 C16",
)
claim(
    "C20",
    "Model-based testing over generated histories: bus scenarios (publish/subscribe/param/logger event schedules incl. simultaneous events) executed on a fresh uros.Core and compared with a list/dict reference model; estimator node driven with generated stamp patterns through recording spies; a hypothesis.stateful rule-based machine over the registry API; thorough tier adds coverage-guided atheris/libFuzzer campaigns over the same strategies and oracles",
    "Exploration: each generated scenario is a whole history (setup order, pre-run publishes, late subscribers, publisher processes with dyadic delays, wrong-type publishes, parameter updates, logger period changes) shrunk as one value; invariants: exactly-once synchronous in-order delivery to the subscribers of the topic only, type rejection, parameter visibility after broadcast, logger row times/contents; estimator: dt > 0 for every predict and rate-limited corrections.",
    "simpy is single-threaded and deterministic, so the generated schedules are all the schedules that exist for this code; tie-breaking among simultaneous events is not over-specified by the model.",
    "DESIGN.md §3 C20",
)

claim(
    "C18",
    "Hypothesis property-based testing with an exact rational oracle (fractions.Fraction Bernstein evaluation and polynomial differentiation on dyadic inputs); boundary conditions of both solvers checked on the returned control points",
    "Exploration: degrees 1..8, dimensions 1..3, every derivative order, t inside and outside [0, T]; the cubic and septic boundary-value solvers are checked against every requested end condition (not against their own constraint rows); trajectory and multirotor outputs are compared with exact successive derivatives.",
    "Inputs are dyadic rationals so the oracle is exact; solver outputs are taken as exact doubles.",
    "DESIGN.md §3 C18",
)
claim(
    "C19",
    "Grammar-based generation of expression trees (Hypothesis recursive strategies) + differential evaluation: SymPy evalf (30 digits) vs CasADi Function, both directions; typed numeric/boolean sub-trees; stateful symbol-table histories with cse; thorough tier adds coverage-guided atheris/libFuzzer campaigns",
    "Exploration over programs: random trees over the supported grammar of each converter (plus unsupported constructs that must raise or convert faithfully) evaluated at generated points incl. equal operands, negative operands, exact zeros and rounding ties; sequences of conversions sharing one symbol table check name <-> variable consistency.",
    "Trusts SymPy's numeric evaluation. Points outside a sub-expression's domain (non-finite intermediate, atan2(0,0)) or ill-conditioned are discarded and counted. Any exception on an unsupported construct counts as 'raises'.",
    "DESIGN.md §3 C19",
)

claim(
    "C11",
    "Hypothesis property-based testing of the estimator's CasADi step functions: initialisation round trip from harness-generated consistent measurements, prediction vs exact gyro integration (error bound + observed order), rejection => outputs identical, acceptance => finite and P+ <= P (numpy eigenvalues), gates populated by construction",
    "Exploration over the 30+-dimensional input space of initialize / predict / correct_mag / correct_accel with measurement classes (consistent, noisy, gross, zero, wrong direction) and states steered into both magnetometer gates; class coverage (accepted / rejected by each code) is enforced.",
    "Trusts the harness sensor model (same convention as the estimator's own measurement functions) and numpy. Order bounds calibrated on the unchanged tree with stated margins.",
    "DESIGN.md §3 C11",
)
claim(
    "C12",
    "Generated closed-loop histories (Hypothesis-drawn run parameters, each executed through launch.launch_sim with noise off) checked by invariants over every logged row: sensor magnitudes/rotation, no NaN, attitude error bound after the transient, per-component gyro-bias convergence, accepted corrections; plus a direct property test of the simulator's measurement functions",
    "Exploration: 8 (quick) / 320 (thorough) whole runs of 20-30 simulated seconds over generated initial attitudes, biases, field geometry, rates and initialise on/off; a bounded-horizon statement of convergence with calibrated thresholds; the sensor-model cell evaluates thousands of generated states directly.",
    "Convergence is checked as a bounded-horizon property (10 s transient, 0.05 rad, bias within max(0.35 initial, 0.02)); thresholds calibrated on the repaired tree with >= 2.3x margin. Failing runs are not shrunk.",
    "DESIGN.md §3 C12",
)

claim(
    "C14",
    "Hypothesis property-based testing with constructed degenerate inputs (demanded force at/around each norm threshold, force parallel/antiparallel to the heading to within 1e-9..1e-2 rad) against the harness-recomputed demanded force, orthonormality predicates, closed-form thrust-axis rotation rate, Euler's equation and a differential comparison of the two flatness variants",
    "Exploration: position_control, se23_position_control, f_ref, mr_ref_traj (module constants and generated mass/inertia), input_auto_level and eulerB321_to_quat are evaluated on random and constructed inputs; every branch class (regular, thrust below threshold, thrust parallel to heading) must be populated.",
    "Trusts the harness's recomputation of the demanded force from the module's gains and the series left Jacobian. Alignment is asserted 1% away from the fallback thresholds; inside the degenerate branches only 'finite proper rotation' is asserted, as the property states.",
    "DESIGN.md §3 C14",
)
claim(
    "C15",
    "Generated call histories (operation lists interpreted with the controller memory fed back: step / reset / vehicle-jump) with invariants after every step, plus property tests of stick linearity and of the attitude error laws against the harness's principal rotation vector, series left Jacobian and scipy expm",
    "Exploration: rate PID, position loop and velocity-mode input recursions over sequences of up to 60 steps (saturations entered and released, yaw wrap on both sides); attitude pairs incl. identical rotations with opposite quaternion sign and relative angles up to pi - 1e-2; SE_2(3) error and log-linear attitude law.",
    "Bounds used as oracles are the module's documented constants. Histories are data interpreted by the harness (equivalent to a rule-based machine; the whole list shrinks as one value).",
    "DESIGN.md §3 C15",
)

claim(
    "C09",
    "Generated programs (equation set x generator option vector) + differential execution: the generated C is compiled (gcc -Wall -Werror), loaded with casadi.external and compared with the symbolic Function on generated inputs incl. harvested branch constants +- 1 ulp; symbol-set and layout checks for every option vector",
    "Exploration over programs and inputs: six shipped equation sets through their own entry points (__main__ blocks via runpy, generate_code functions), option vectors = defaults, all single and pairwise flips (all 2^k on the two smallest sets in the thorough tier); per function n_in/n_out/names/sparsities and NaN-aware value agreement on generated inputs; exported symbol set parsed from the C text must equal the Function names of the set and the pinned list.",
    "Differential execution only (no structural translation validation of the C text). The CasADi VM is the reference. 'Compiles cleanly' is asserted for the default option vector of each entry point; mex/cpp/main variants are generated and symbol-checked but not compiled.",
    "DESIGN.md §3 C09",
)

claim(
    "C17",
    "Generated closed-loop histories: Hypothesis-drawn initial conditions, heading set-points and mode, each simulated for 20-30 s (controller functions wired as in scripts/rdd2_sim.py, plant integrated by a harness-side RK4) with invariants over the whole trajectory (finite, motors within limits, position/attitude/rate/heading settle, error decays)",
    "Exploration: 64 (quick) / 1600 (thorough) runs per cascade over initial positions within 3 m, tilts up to 60 degrees about random axes with quaternions of either sign, velocities and body rates of order 1 and commanded headings in (-pi, pi]; bounded-horizon statement of convergence (0.05 m over the last 2 s, tilt and rate <= 0.02, heading <= 0.05 rad).",
    "The controller sees the true state; constant hover set-point. One recorded finding (log-linear cascade with |heading set-point| > 0.3 rad does not converge) is excluded by input class and reported as KNOWN-FINDING; the same cascade at |heading| <= 0.3 rad and the position_control cascade at all headings are checked. Failing runs are not shrunk.",
    "DESIGN.md §3 C17",
)

NOT_YET = "check not built yet in this round (work in progress; see DESIGN.md)"


def main():
    props = [json.loads(l) for l in open(os.path.join(HERE, "properties.jsonl"))]
    checks = []
    na = []
    for p in props:
        pid = p["id"]
        if pid in CLAIMED and os.path.exists(os.path.join(HERE, "props")):
            tech, text, note, ref = CLAIMED[pid]
            checks.append(
                {
                    "property_id": pid,
                    "quick_cmd": "/venv/bin/python run.py %s --tier quick" % pid,
                    "thorough_cmd": "/venv/bin/python run.py %s --tier thorough" % pid,
                    "evidence_file": "/verif/evidence/%s.json" % pid,
                    "replay_cmd_template": "/venv/bin/python run.py %s --replay {path}" % pid,
                    "engine": "hypothesis-cells",
                    "level_claimed": {"category": "exploration", "text": text, "design_ref": ref},
                    "level_note": note,
                    "technique": tech,
                }
            )
        else:
            na.append({"property_id": pid, "reason": NOT_YET})
    try:
        commits = subprocess.run(
            ["git", "-C", "/repo", "log", "--format=%h %s", "--grep", "^verif-hook:"],
            capture_output=True, text=True).stdout.strip().splitlines()
    except Exception:
        commits = []
    man = {
        "version": 1,
        "setup_cmd": "./setup.sh",
        "hooks": {
            "guard": "CYECCA_VERIF",
            "enable": "no source hooks are needed: every observation point is a public function, a returned array, or a callable passed to a constructor; checks import cyecca from /repo's working tree (CYECCA_REPO overrides the path for scratch copies) and set CYECCA_VERIF=1 for uniformity",
            "baseline_off_cmd": "cd /repo && env -u CYECCA_VERIF /venv/bin/python -m pytest -ra -q -p no:cacheprovider --timeout=900 --continue-on-collection-errors",
            "source_commits": [c.split()[0] for c in commits],
            "add_only": True,
        },
        "engines": [
            {
                "name": "hypothesis-cells",
                "path": "run.py, vlib/, props/",
                "serves_properties": sorted(CLAIMED),
                "kind_free_text": "Seeded Hypothesis (6.168) property-based testing split into cells (call site x law), with explicit oracles (numpy/scipy/mpmath reference models, round trips, metamorphic and differential relations, stateful rule-based machines), shrinking to JSON replay files, and measured non-triviality counters.",
            }
        ],
        "checks": checks,
        "not_applicable": na,
        "notes": "All commands run from /verif with /venv/bin/python; VERIF_SEED selects the Hypothesis seed; exit 2 = harness error. known_findings.json lists recorded and fixed findings.",
    }
    with open(os.path.join(HERE, "MANIFEST.json"), "w") as f:
        json.dump(man, f, indent=1)
    # validate
    try:
        import jsonschema  # noqa

        sch = json.load(open("/root/.vp/MANIFEST.schema.json"))
        jsonschema.validate(man, sch)
        print("manifest valid; claimed:", sorted(CLAIMED))
    except ImportError:
        print("manifest written (jsonschema not importable here); claimed:", sorted(CLAIMED))


if __name__ == "__main__":
    main()
