#!/venv/bin/python
"""Regenerates /verif/MANIFEST.json from the table below (so it stays valid at all times)."""
import json
import os
import subprocess

HERE = os.path.dirname(os.path.dirname(os.path.abspath(__file__)))

# id -> (technique, level text, level note, design ref)
CLAIMED = {}


def claim(pid, technique, text, note, ref):
    CLAIMED[pid] = (technique, text, note, ref)


claim(
    "C01",
    "Hypothesis property-based testing: generated element pairs/triples vs numpy matrix algebra (homomorphism, inverse, identity, associativity, from_Matrix round trip, direct-product blocks)",
    "Exploration: seeded Hypothesis search over stratified valid elements of all 16 exposed groups (every SO(3) parameterisation plugged into SE(3)/SE_2(3)) and generated direct products; the oracle is numpy matrix multiplication/inversion of the matrix forms, compared two-sidedly at 1e-9 relative. Finds counterexamples, never proves absence.",
    "Trusts numpy linear algebra and the harness encoders (axis-angle -> quaternion/MRP/DCM/Euler written from textbook formulas). MRP pairs within 1e-2 of the 360-degree singularity and Euler inputs inside the gimbal band are outside the property's domain and discarded (counted).",
    "DESIGN.md §3 C01",
)

claim(
    "C02",
    "Hypothesis property-based testing with forced angle stratification: M(exp x) vs an independent matrix exponential (scipy / mpmath 50 digits) of the algebra matrix; exp(-x), one-parameter subgroup and exp(0) laws",
    "Exploration: for every (algebra, target group) incl. all SO(3) parameterisations and direct sums, generated algebra vectors with the rotation angle forced through every stratum (0, denormal, tiny, both sides of each series switch to the ulp, mid, near pi, pi, beyond pi, near a gimbal pole) are exponentiated and compared with expm(hat(x)); plus metamorphic laws. Sampled, not exhaustive.",
    "Trusts scipy.linalg.expm (quick) and the mpmath Taylor scaling-and-squaring exponential written in vlib/ref.py (thorough); hat(x) is cyecca's own algebra to_Matrix, as the property states. Angles < 2pi-0.05.",
    "DESIGN.md §3 C02",
)
claim(
    "C03",
    "Hypothesis property-based testing: exp(log X)=X and log(exp x)=x round trips, principal-log oracle (logm + atan2 rotation log), cross-representation differential of log",
    "Exploration: generated elements of every group/representation (negative-scalar quaternions, shadow MRPs, DCM, Euler) at least 1e-2 rad away from pi; round trips compared as matrices / vectors; the principal cell compares with vee(logm(M(X))) and a harness-side principal rotation log; the crossrep cells encode one rotation into all representations and compare the logs pairwise and with axis*angle.",
    "Trusts scipy.linalg.logm / mpmath.logm and the harness encoders. Tolerances scale with 1/(pi-angle) and 1+|translations|.",
    "DESIGN.md §3 C03",
)

NOT_YET = "check not built yet in this round (work in progress; see DESIGN.md)"


def main():
    props = [json.loads(l) for l in open(os.path.join(HERE, "properties.jsonl"))]
    checks = []
    na = []
    for p in props:
        pid = p["id"]
        if pid in CLAIMED and os.path.exists(os.path.join(HERE, "props")):
            tech, text, note, ref = CLAIMED[pid]
            checks.append(
                {
                    "property_id": pid,
                    "quick_cmd": "/venv/bin/python run.py %s --tier quick" % pid,
                    "thorough_cmd": "/venv/bin/python run.py %s --tier thorough" % pid,
                    "evidence_file": "/verif/evidence/%s.json" % pid,
                    "replay_cmd_template": "/venv/bin/python run.py %s --replay {path}" % pid,
                    "engine": "hypothesis-cells",
                    "level_claimed": {"category": "exploration", "text": text, "design_ref": ref},
                    "level_note": note,
                    "technique": tech,
                }
            )
        else:
            na.append({"property_id": pid, "reason": NOT_YET})
    try:
        commits = subprocess.run(
            ["git", "-C", "/repo", "log", "--format=%h %s", "--grep", "^verif-hook:"],
            capture_output=True, text=True).stdout.strip().splitlines()
    except Exception:
        commits = []
    man = {
        "version": 1,
        "setup_cmd": "./setup.sh",
        "hooks": {
            "guard": "CYECCA_VERIF",
            "enable": "no source hooks are needed: every observation point is a public function, a returned array, or a callable passed to a constructor; checks import cyecca from /repo's working tree (CYECCA_REPO overrides the path for scratch copies) and set CYECCA_VERIF=1 for uniformity",
            "baseline_off_cmd": "cd /repo && env -u CYECCA_VERIF /venv/bin/python -m pytest -ra -q -p no:cacheprovider --timeout=900 --continue-on-collection-errors",
            "source_commits": [c.split()[0] for c in commits],
            "add_only": True,
        },
        "engines": [
            {
                "name": "hypothesis-cells",
                "path": "run.py, vlib/, props/",
                "serves_properties": sorted(CLAIMED),
                "kind_free_text": "Seeded Hypothesis (6.168) property-based testing split into cells (call site x law), with explicit oracles (numpy/scipy/mpmath reference models, round trips, metamorphic and differential relations, stateful rule-based machines), shrinking to JSON replay files, and measured non-triviality counters.",
            }
        ],
        "checks": checks,
        "not_applicable": na,
        "notes": "All commands run from /verif with /venv/bin/python; VERIF_SEED selects the Hypothesis seed; exit 2 = harness error. known_findings.json lists recorded and fixed findings.",
    }
    with open(os.path.join(HERE, "MANIFEST.json"), "w") as f:
        json.dump(man, f, indent=1)
    # validate
    try:
        import jsonschema  # noqa

        sch = json.load(open("/root/.vp/MANIFEST.schema.json"))
        jsonschema.validate(man, sch)
        print("manifest valid; claimed:", sorted(CLAIMED))
    except ImportError:
        print("manifest written (jsonschema not importable here); claimed:", sorted(CLAIMED))


if __name__ == "__main__":
    main()
